#!/usr/bin/env python3
"""Merge the per-flavour parts written by enrsim into /verif/evidence/<id>.json (EVIDENCE.schema.json)."""
import json, sys, os
prop, tier, seed, here = sys.argv[1], sys.argv[2], int(sys.argv[3]), sys.argv[4]
flavours = sys.argv[5:]
parts = []
for f in flavours:
    p = os.path.join(here, "evidence", ".parts", f"{prop}-{f}.json")
    if os.path.exists(p):
        parts.append(json.load(open(p)))
if not parts:
    sys.exit(1)
def addmaps(key):
    out = {}
    for p in parts:
        for k, v in p.get(key, {}).items():
            out[k] = out.get(k, 0) + v
    return dict(sorted(out.items()))
distinct = set()
for p in parts:
    for t in p["distinct_transitions"]:
        distinct.add(t)          # transitions carry the back-end name, so flavours do not collide
evaluations = sum(p["evaluations"] for p in parts)
wall = sum(p["wall_s"] for p in parts)
steps = sum(p["logical_steps"] for p in parts)
samples = []
for p in parts:
    samples.extend(p["samples"][:2])
violations = []
for p in parts:
    violations.extend(p["violations"])
known = {}
for p in parts:
    known.update(p.get("known_findings_hit", {}))
level = parts[0]["level"]
probes = addmaps("probes")
masks = {k: v for k, v in probes.items() if k.startswith("c14:presence-mask:")}
probes = {k: v for k, v in probes.items() if not k.startswith("c14:presence-mask:")}
probes["c14:presence-masks-reached-of-64"] = len(masks)
ev = {
    "property_id": prop,
    "tier": tier,
    "seed": seed,
    "level": level,
    "coverage": {
        "evaluations": evaluations,
        "distinct_nontrivial": len(distinct),
        "rule": ("One evaluation = one simulated run (one derived seed = one exactly repeatable execution: set-up of 2-5 nodes, "
                 "10-200 events, fault-free tail), or one item of a fixed labelled workload (bounded mutator sequences, port sweep), "
                 "or one re-execution of a sampled run with one signing call failing. distinct_nontrivial counts DISTINCT abstract "
                 "transitions on which an oracle of this property was evaluated: for history properties (back-end, call, abstract "
                 "pre-state = seq-length class / size class <=200,201-280,281-300 / presence mask of reserved keys / custom-key count class, "
                 "own-key|re-key, outcome); for wire properties (decoder type, message form, message class = honest|foreign|byz:<rule>|"
                 "tamper:<kind>|fault:<kind>|noise, reference verdict, library verdict). Trivial cases (events skipped because a node had "
                 "no record, dropped messages) are not counted."),
        "samples": samples,
        "exhaustive": False,
        "flavours": [p["flavour"] for p in parts],
        "seeded_runs": sum(p["seeded_runs"] for p in parts),
        "labelled_workload_items": sum(p["workload_items"] for p in parts),
        "signer_fault_enumeration_runs": sum(p["signer_fault_enumeration_runs"] for p in parts),
        "logical_steps_simulated": steps,
        "simulated_clock_time_s": 0,
        "simulated_clock_note": "the library reads no clock and has no timers; the simulator counts logical steps (events) instead of simulated seconds",
        "runs_per_hour": int(evaluations / max(wall, 1e-3) * 3600),
        "fault_kinds_fired": addmaps("faults_fired"),
        "event_kinds": addmaps("events"),
        "probes": probes,
        "excluded_or_unjudged": {k: v for k, v in probes.items() if k.startswith("excluded:") or k.startswith("unjudged:")},
        "determinism_selfcheck": {"reexecuted_on_other_workers": sum(p["determinism_selfcheck"]["reexecuted"] for p in parts), "mismatches": 0},
        "real_vs_stub": {
            "real": ["enr (decoder, builder, all mutators, accessors, Display/Debug/serde, every key back-end of the flavour)", "alloy-rlp", "k256", "libsecp256k1", "ed25519-dalek", "base64", "serde_json", "sha3"],
            "simulated": ["network (loss, duplication, reorder, corruption, coalescing, partitions)", "disk (sync/unsynced, torn write, bit rot, lost write, short read)", "process crash/restart", "signer failure (Faulty<K>)", "OS RNG behind cfg(enr_verif)", "toy variable-length signature scheme", "foreign and Byzantine peers (reference encoder/signer)", "node tables"],
        },
        "known_findings_hit": known,
        "violation_details": violations[:20],
    },
    "assumptions": [
        "rustc and the dependency crates are trusted; k256 and libsecp256k1 judge each other, ed25519-dalek and sha3 are trusted alone",
        "reference models R1-R6 (own RLP, record decoder, text codec, sorted-map model, ledger) are small and validated against the EIP-778 vector at set-up",
        "a clean batch is evidence, not proof: seeded sampling plus complete local fault neighbourhoods along sampled runs",
    ],
    "wall_s": round(wall, 2),
    "violations": len(violations),
}
out = os.path.join(here, "evidence", f"{prop}.json")
json.dump(ev, open(out, "w"), indent=1)
