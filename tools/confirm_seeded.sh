#!/bin/bash
# confirm.sh <worktree> <i> : suite green with patch (default + all features), demo green without, red with
D=$1; I=$2; cd $D || exit 2
export CARGO_NET_OFFLINE=true
git checkout -q -- . ; rm -f tests/demo_*.rs
FEAT=$(grep -o -m1 -- '--all-features\|--features [a-z0-9,_-]*' out/demo_$I.rs | head -1)
cp out/demo_$I.rs tests/demo_$I.rs
cargo test --offline $FEAT --test demo_$I >/tmp/conf-$(basename $D)-$I-clean.log 2>&1; C=$?
git apply out/mutation_$I.diff || { echo "$D $I: patch does not apply"; exit 2; }
cargo test --offline $FEAT --test demo_$I >/tmp/conf-$(basename $D)-$I-mut.log 2>&1; M=$?
rm -f tests/demo_$I.rs
cargo test --workspace --offline >/tmp/conf-$(basename $D)-$I-suite.log 2>&1; S1=$?
cargo test --all-features --offline >/tmp/conf-$(basename $D)-$I-suiteall.log 2>&1; S2=$?
git checkout -q -- . 
echo "$(basename $D)-$I feat='$FEAT' demo_clean_rc=$C demo_mut_rc=$M suite_default_rc=$S1 suite_all_rc=$S2 $( [ $C -eq 0 ] && [ $M -ne 0 ] && [ $S1 -eq 0 ] && [ $S2 -eq 0 ] && echo CONFIRMED || echo REJECTED)"
