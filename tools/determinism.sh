#!/bin/bash
# tools/determinism.sh [flavour] [props...] : prove that one seed is one execution.
# Runs the same check at worker counts 1, 3, 16 and in two further processes with other seeds run twice,
# and diffs the per-job hashes of the complete event + verdict logs (signature bytes included).
set -u
HERE="$(cd "$(dirname "$0")/.." && pwd)"
F="${1:-full}"; shift || true
PROPS="${*:-C05 C01 C06 C13 C12}"
BIN="$HERE/sim/target/$F/release/enrsim"
T="$(mktemp -d /tmp/det.XXXXXX)"
BAD=0
for P in $PROPS; do
  for W in 1 3 16; do
    "$BIN" check --prop $P --tier quick --runs 400 --workers $W --part $T/p.json --replay-dir $T --dump-hashes $T/$P-w$W.txt >/dev/null 2>&1
  done
  cmp -s $T/$P-w1.txt $T/$P-w3.txt && cmp -s $T/$P-w1.txt $T/$P-w16.txt || { echo "$P: hashes differ across worker counts"; BAD=1; }
  for S in 7 12345; do
    "$BIN" check --prop $P --tier quick --runs 300 --seed $S --workers 16 --part $T/p.json --replay-dir $T --dump-hashes $T/$P-s$S-a.txt >/dev/null 2>&1
    "$BIN" check --prop $P --tier quick --runs 300 --seed $S --workers 5 --part $T/p.json --replay-dir $T --dump-hashes $T/$P-s$S-b.txt >/dev/null 2>&1
    cmp -s $T/$P-s$S-a.txt $T/$P-s$S-b.txt || { echo "$P seed $S: hashes differ between processes"; BAD=1; }
  done
  echo "$P: $(wc -l < $T/$P-w1.txt) jobs x 3 worker counts + 2 x $(wc -l < $T/$P-s7-a.txt) jobs x 2 processes compared"
done
rm -rf "$T"
[ $BAD -eq 0 ] && echo "deterministic" || { echo "NONDETERMINISM"; exit 1; }
