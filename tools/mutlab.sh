#!/bin/bash
# tools/mutlab.sh <patch.diff> [C01 ...] : like try_mutant.sh, but on a private copy of /repo (a git
# worktree under /tmp/mutlab/repo) and a private copy of /verif whose simulator depends on that copy,
# so that /repo itself is never touched (other runs may be rebuilding from it).
set -u
PATCH="$(readlink -f "$1")"; shift
PROPS="${*:-C01 C02 C03 C04 C05 C06 C07 C08 C09 C10 C11 C12 C13 C14 C15}"
LAB="${MUTLAB:-/tmp/mutlab}"
if [ ! -d $LAB/repo ]; then
  mkdir -p $LAB && git -C /repo worktree add -q --detach $LAB/repo HEAD && cp /repo/Cargo.lock $LAB/repo/
fi
git -C $LAB/repo checkout -q --detach "$(git -C /repo rev-parse HEAD)" 2>/dev/null; git -C $LAB/repo checkout -q -- .
# refresh the private copy of /verif (sources only; its target directories are kept for incremental builds)
mkdir -p $LAB/verif
rsync -a --delete --exclude 'sim/target' --exclude 'evidence' --exclude 'replays' --exclude '.git' --exclude 'seeded' /verif/ $LAB/verif/
sed -i "s#path = \"/repo\"#path = \"$LAB/repo\"#" $LAB/verif/sim/Cargo.toml
git -C $LAB/repo apply "$PATCH" || { echo "patch does not apply" >&2; exit 2; }
SCR="$(mktemp -d /tmp/mutrun.XXXXXX)"
CAUGHT=""
for P in $PROPS; do
  VERIF_OUT="$SCR" $LAB/verif/check "$P" quick >"$SCR/$P.out" 2>&1; RC=$?
  if [ $RC -eq 1 ]; then CAUGHT="$CAUGHT $P"; echo "$P: VIOLATION  $(grep -m3 '^  C' "$SCR/$P.out" | sed 's/ :: .*//' | tr '\n' ';')";
  elif [ $RC -ne 0 ]; then echo "$P: harness rc=$RC $(tail -3 "$SCR/$P.out" | tr '\n' ' ')"; fi
done
git -C $LAB/repo checkout -q -- .
echo "caught by:${CAUGHT:- NONE}   (outputs in $SCR)"
