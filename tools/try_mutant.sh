#!/bin/bash
# tools/try_mutant.sh <patch.diff> [C01 C02 ...]  : apply a seeded change to /repo, run the quick checks
# (all 15 by default) with output under a scratch directory, print which properties raise a violation,
# and undo the change. Never commits anything.
set -u
PATCH="$(readlink -f "$1")"; shift
PROPS="${*:-C01 C02 C03 C04 C05 C06 C07 C08 C09 C10 C11 C12 C13 C14 C15}"
HERE="$(cd "$(dirname "$0")/.." && pwd)"
SCR="$(mktemp -d /tmp/mutrun.XXXXXX)"
if [ -n "$(git -C /repo status --porcelain --untracked-files=no)" ]; then echo "/repo is not clean" >&2; exit 2; fi
git -C /repo apply "$PATCH" || { echo "patch does not apply" >&2; exit 2; }
CAUGHT=""
for P in $PROPS; do
  VERIF_OUT="$SCR" "$HERE/check" "$P" quick >"$SCR/$P.out" 2>&1; RC=$?
  if [ $RC -eq 1 ]; then CAUGHT="$CAUGHT $P"; echo "$P: VIOLATION  $(grep -m3 '^  C' "$SCR/$P.out" | sed 's/ :: .*//' | tr '\n' ';')";
  elif [ $RC -ne 0 ]; then echo "$P: harness rc=$RC $(tail -3 "$SCR/$P.out" | tr '\n' ' ')"; fi
done
git -C /repo checkout -- .
echo "caught by:${CAUGHT:- NONE}   (outputs in $SCR)"
