#!/usr/bin/env python3
"""After an abnormal exit (abort, stack overflow, watchdog) find the job that kills the process:
re-run every job that was in flight, one per process, and write a seed-only replay file for the culprit."""
import sys, os, re, subprocess, json, glob
binp, prop, flavour, tier, rdir = sys.argv[1:6]
inflight = []
for j in glob.glob(os.path.join(rdir, ".journal-*")):
    started = {}
    for line in open(j, errors="replace"):
        m = re.match(r"start (\d+) (.*)", line)
        if m: started[m.group(1)] = m.group(2)
        m = re.match(r"done (\d+)", line)
        if m: started.pop(m.group(1), None)
    inflight.extend(started.values())
    os.remove(j)
found = False
for job in inflight:
    m = re.match(r"Seeded\((\d+)\)", job)
    if not m:
        continue
    seed = int(m.group(1))
    path = os.path.join(rdir, f"{prop}-abnormal-{flavour}-{seed}.json")
    json.dump({"version": 1, "property": prop, "flavour": flavour, "seed": seed, "workload": "seed-only:" + tier,
               "nodes": [], "events": [], "violation": {"prop": "C03", "check": "C03/abnormal-exit", "detail": "process aborted or hung"},
               "minimised": False, "note": "seed-only replay: the run is regenerated from the seed"}, open(path, "w"))
    try:
        rc = subprocess.run([binp, "replay", path, "--quiet"], stdout=subprocess.DEVNULL, stderr=subprocess.DEVNULL, timeout=40).returncode
    except subprocess.TimeoutExpired:
        rc = -1
    if rc not in (0, 1, 2):
        print(f"  C03/abnormal-exit :: seed {seed} kills the process (exit {rc}; -1 = no termination within 40 s; a normal run takes well under a second)")
        print(f"VIOLATION property={prop} replay={path}")
        found = True
        break  # one culprit is enough for the verdict; the others in flight are very likely the same defect
    else:
        os.remove(path)
sys.exit(1 if found and prop == "C03" else (1 if found else 0))
