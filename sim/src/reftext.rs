//! R5 — reference text form: "enr:" + unpadded URL-safe base64 (RFC 4648 §5), own codec.

const ALPHABET: &[u8; 64] = b"ABCDEFGHIJKLMNOPQRSTUVWXYZabcdefghijklmnopqrstuvwxyz0123456789-_";

pub fn b64url_encode(data: &[u8]) -> String {
    encode_with(data, ALPHABET)
}

pub fn encode_with(data: &[u8], alphabet: &[u8; 64]) -> String {
    let mut out = String::with_capacity(data.len() * 4 / 3 + 4);
    for chunk in data.chunks(3) {
        let b0 = chunk[0];
        let b1 = *chunk.get(1).unwrap_or(&0);
        let b2 = *chunk.get(2).unwrap_or(&0);
        let n = (u32::from(b0) << 16) | (u32::from(b1) << 8) | u32::from(b2);
        out.push(alphabet[((n >> 18) & 63) as usize] as char);
        out.push(alphabet[((n >> 12) & 63) as usize] as char);
        if chunk.len() > 1 {
            out.push(alphabet[((n >> 6) & 63) as usize] as char);
        }
        if chunk.len() > 2 {
            out.push(alphabet[(n & 63) as usize] as char);
        }
    }
    out
}

fn val(c: u8) -> Option<u32> {
    match c {
        b'A'..=b'Z' => Some(u32::from(c - b'A')),
        b'a'..=b'z' => Some(u32::from(c - b'a') + 26),
        b'0'..=b'9' => Some(u32::from(c - b'0') + 52),
        b'-' => Some(62),
        b'_' => Some(63),
        _ => None,
    }
}

/// Strict decoder: URL-safe alphabet only, no padding, no whitespace, zero trailing bits,
/// length mod 4 != 1.
pub fn b64url_decode_strict(s: &str) -> Option<Vec<u8>> {
    let b = s.as_bytes();
    if b.len() % 4 == 1 {
        return None;
    }
    let mut out = Vec::with_capacity(b.len() * 3 / 4);
    for chunk in b.chunks(4) {
        let mut n: u32 = 0;
        for (i, c) in chunk.iter().enumerate() {
            n |= val(*c)? << (18 - 6 * i);
        }
        match chunk.len() {
            4 => {
                out.push((n >> 16) as u8);
                out.push((n >> 8) as u8);
                out.push(n as u8);
            }
            3 => {
                if n & 0xff != 0 {
                    return None;
                }
                out.push((n >> 16) as u8);
                out.push((n >> 8) as u8);
            }
            2 => {
                if n & 0xffff != 0 {
                    return None;
                }
                out.push((n >> 16) as u8);
            }
            _ => return None,
        }
    }
    Some(out)
}

/// T(r) for the encoded record bytes.
pub fn text_form(encoded: &[u8]) -> String {
    format!("enr:{}", b64url_encode(encoded))
}

#[cfg(test)]
mod tests {
    use super::*;
    #[test]
    fn rt() {
        for n in 0..20usize {
            let d: Vec<u8> = (0..n).map(|i| (i * 37 + 11) as u8).collect();
            let e = b64url_encode(&d);
            assert!(!e.contains('='));
            assert_eq!(b64url_decode_strict(&e).unwrap(), d);
        }
        assert!(b64url_decode_strict("QQ").is_some());
        assert!(b64url_decode_strict("QR").is_none());
        assert!(b64url_decode_strict("QQ==").is_none());
        assert!(b64url_decode_strict("Q Q").is_none());
    }
}
