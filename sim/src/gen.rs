//! Seeded generation of set-ups, histories, messages and faults. Every choice comes from `Rng`.

use crate::byz::{Content, Pos, Rule, Tamper};
use crate::keys::Backend;
use crate::ops::{BCall, IpArg, Op, PkSel, Val};
use crate::refrec::{predicted_size, PkKind};
use crate::refrlp as rlp;
use crate::rng::Rng;
use crate::world::{DiskFault, Event, Form, NetFault, NodeSpec, World};

/// Event-kind weights and knobs of one run (swarm style: drawn per run).
#[derive(Clone, Debug)]
pub struct Profile {
    pub prop: String,
    pub w_op: u32,
    pub w_build: u32,
    pub w_arm: u32,
    pub w_varlen: u32,
    pub w_publish: u32,
    pub w_foreign: u32,
    pub w_byz: u32,
    pub w_tamper: u32,
    pub w_fault: u32,
    pub w_txtfault: u32,
    pub w_deliver: u32,
    pub w_stream: u32,
    pub w_sweep: u32,
    pub w_noise: u32,
    pub w_persist: u32,
    pub w_crash: u32,
    pub w_diskfault: u32,
    pub w_partition: u32,
    pub w_enum: u32,
    pub w_poolcheck: u32,
    /// steer update results into 280..320 bytes
    pub size_knob: bool,
    /// start sequence numbers at encoding boundaries
    pub seq_knob: bool,
    /// probability (per 100) that an argument is ill-typed / malformed
    pub bad_arg_pct: u64,
    /// probability (per 100) of signing with another key of the node
    pub rekey_pct: u64,
    pub len_lo: usize,
    pub len_hi: usize,
    pub max_enum: u32,
    pub text_bias: bool,
}

impl Profile {
    pub fn for_prop(prop: &str, rng: &mut Rng, thorough: bool) -> Self {
        let mut p = Profile {
            prop: prop.to_string(),
            w_op: 60,
            w_build: 4,
            w_arm: 0,
            w_varlen: 3,
            w_publish: 4,
            w_foreign: 1,
            w_byz: 1,
            w_tamper: 1,
            w_fault: 2,
            w_txtfault: 0,
            w_deliver: 3,
            w_stream: 0,
            w_sweep: 0,
            w_noise: 1,
            w_persist: 3,
            w_crash: 1,
            w_diskfault: 1,
            w_partition: 1,
            w_enum: 0,
            w_poolcheck: 1,
            size_knob: rng.chance(1, 3),
            seq_knob: rng.chance(1, 2),
            bad_arg_pct: *rng.pick(&[0, 5, 10, 25]),
            rekey_pct: *rng.pick(&[0, 0, 5, 20]),
            len_lo: 10,
            len_hi: if thorough { 200 } else { 80 },
            max_enum: 0,
            text_bias: false,
        };
        let wire = |p: &mut Profile| {
            p.w_op = 8;
            p.w_build = 2;
            p.w_publish = 10;
            p.w_foreign = 10;
            p.w_byz = 12;
            p.w_tamper = 10;
            p.w_fault = 14;
            p.w_deliver = 6;
            p.w_noise = 3;
            p.w_persist = 2;
            p.w_stream = 1;
            p.len_hi = if thorough { 120 } else { 60 };
        };
        match prop {
            "C01" => {
                wire(&mut p);
                p.w_tamper = 20;
                p.w_fault = 20;
                p.w_byz = 3;
                p.w_enum = 1;
                // complete neighbourhoods are expensive (about 2 400 deliveries to every decoder each):
                // roughly 600 per quick batch, a few thousand per thorough batch
                p.max_enum = if thorough { u32::from(rng.chance(1, 4)) } else { 1 };
                p.w_diskfault = 3;
                p.w_crash = 2;
                p.w_persist = 4;
            }
            "C02" => {
                wire(&mut p);
                p.w_byz = 40;
                p.w_foreign = 15;
                p.w_tamper = 2;
                p.w_fault = 4;
            }
            "C11" => {
                wire(&mut p);
                p.w_byz = 25;
                p.w_foreign = 12;
                p.w_publish = 15;
                p.w_op = 15;
                p.rekey_pct = 10;
            }
            "C12" => {
                wire(&mut p);
                p.w_txtfault = 30;
                p.w_fault = 4;
                p.w_byz = 3;
                p.w_tamper = 2;
                p.text_bias = true;
                p.w_diskfault = 3;
                p.w_persist = 5;
                p.w_crash = 2;
            }
            "C13" => {
                wire(&mut p);
                p.w_stream = 15;
                p.w_sweep = 8;
                p.w_byz = 8;
                p.w_fault = 6;
                p.w_tamper = 3;
            }
            "C03" => {
                p.w_noise = 8;
                p.w_fault = 6;
                p.w_byz = 4;
                p.w_tamper = 2;
                p.bad_arg_pct = *rng.pick(&[10, 25, 40]);
                p.w_arm = 2;
            }
            "C04" => {
                p.w_publish = 8;
                p.w_foreign = 6;
                p.w_byz = 3;
                p.w_persist = 6;
                p.w_crash = 2;
                p.w_diskfault = 2;
            }
            "C06" => {
                p.w_arm = *rng.pick(&[0, 6, 12]);
                p.size_knob = rng.chance(1, 2);
                p.seq_knob = true;
                p.bad_arg_pct = *rng.pick(&[5, 15, 30]);
                p.w_varlen = 6;
            }
            "C07" => {
                p.seq_knob = true;
            }
            "C09" => {
                p.size_knob = true;
                p.seq_knob = rng.chance(2, 3);
                p.bad_arg_pct = *rng.pick(&[0, 0, 5]);
                p.w_varlen = 6;
            }
            "C15" => {
                p.w_poolcheck = 4;
                p.rekey_pct = *rng.pick(&[5, 20]);
            }
            _ => {}
        }
        // swarm: knock out some fault kinds entirely in this run
        for w in [
            &mut p.w_noise,
            &mut p.w_crash,
            &mut p.w_diskfault,
            &mut p.w_partition,
            &mut p.w_stream,
        ] {
            if rng.chance(1, 4) {
                *w = 0;
            }
        }
        p
    }
}

const SEQS: [u64; 14] = [
    0,
    1,
    127,
    128,
    255,
    256,
    65535,
    65536,
    0xffff_ffff,
    0x1_0000_0000,
    u64::MAX - 2,
    u64::MAX - 1,
    u64::MAX,
    42,
];

pub fn gen_seq(rng: &mut Rng) -> u64 {
    if rng.chance(3, 4) {
        *rng.pick(&SEQS)
    } else {
        let bits = rng.range(1, 64);
        rng.next_u64() >> (64 - bits)
    }
}

pub fn gen_port(rng: &mut Rng) -> u16 {
    if rng.chance(1, 2) {
        *rng.pick(&[0u16, 1, 127, 128, 255, 256, 65535, 30303, 9000])
    } else {
        rng.next_u64() as u16
    }
}

pub fn gen_ip(rng: &mut Rng, v4: bool) -> IpArg {
    if v4 {
        let a = match rng.below(5) {
            0 => [0, 0, 0, 0],
            1 => [255, 255, 255, 255],
            2 => [127, 0, 0, 1],
            3 => [0, 0, 0, 1],
            _ => {
                let b = rng.bytes(4);
                [b[0], b[1], b[2], b[3]]
            }
        };
        IpArg::V4(a)
    } else {
        let mut a = [0u8; 16];
        match rng.below(5) {
            0 => {}
            1 => a = [0xff; 16],
            2 => a[15] = 1,
            3 => {
                a[10] = 0xff;
                a[11] = 0xff;
                a[12] = 10;
                a[15] = 1;
            }
            _ => a.copy_from_slice(&rng.bytes(16)),
        }
        IpArg::V6(a)
    }
}

const CUSTOM_KEYS: [&[u8]; 11] = [
    b"",
    b"\x00",
    b"\x7f",
    b"\x80",
    b"a",
    b"z",
    b"eth2",
    b"attnets",
    b"id2",
    b"ip5",
    b"zzpad",
];
const RESERVED_KEYS: [&[u8]; 11] = [
    b"id",
    b"ip",
    b"ip6",
    b"tcp",
    b"tcp6",
    b"udp",
    b"udp6",
    b"secp256k1",
    b"ed25519",
    b"client",
    b"vs",
];

pub fn gen_key(rng: &mut Rng, reserved_pct: u64) -> Vec<u8> {
    if rng.chance(reserved_pct, 100) {
        rng.pick(&RESERVED_KEYS).to_vec()
    } else if rng.chance(1, 12) {
        // long keys: 40 bytes (short header) and 60 bytes (two-byte header)
        vec![b'k'; if rng.chance(1, 2) { 40 } else { 60 }]
    } else {
        rng.pick(&CUSTOM_KEYS).to_vec()
    }
}

pub fn gen_small_bytes(rng: &mut Rng) -> Vec<u8> {
    if rng.chance(1, 40) {
        // now and then a value that alone is larger than a whole record may be
        return vec![0x5a; rng.range(240, 420) as usize];
    }
    let n = match rng.below(10) {
        0 => 0,
        1 => 1,
        2 => 4,
        3 => 16,
        4 => 33,
        5 => 55,
        6 => 56,
        7 => 57,
        _ => rng.usize_below(40),
    };
    let mut b = rng.bytes(n);
    if n == 1 && rng.chance(1, 2) {
        b[0] &= 0x7f;
    }
    b
}

pub fn gen_val(rng: &mut Rng) -> Val {
    match rng.below(8) {
        0 | 1 | 2 => Val::Bytes(gen_small_bytes(rng)),
        3 => Val::U64(gen_seq(rng)),
        4 => Val::U16(gen_port(rng)),
        5 => Val::Str((*rng.pick(&["", "a", "lighthouse", "v1.2.3-\u{e9}", "x86_64-linux"])).to_string()),
        6 => {
            let n = rng.usize_below(7);
            Val::ListStr((0..n).map(|_| gen_small_bytes(rng)).map(|mut b| { b.truncate(12); b }).collect())
        }
        _ => {
            let n = rng.usize_below(3);
            Val::Nested(
                (0..n)
                    .map(|_| {
                        let m = rng.usize_below(3);
                        (0..m).map(|_| rng.bytes(rng.clone().usize_below(5))).collect()
                    })
                    .collect(),
            )
        }
    }
}

/// a value conforming to the reserved key's type
pub fn gen_conforming(rng: &mut Rng, key: &[u8]) -> Option<Val> {
    Some(match key {
        b"ip" => Val::Bytes(gen_ip(rng, true).bytes()),
        b"ip6" => Val::Bytes(gen_ip(rng, false).bytes()),
        b"tcp" | b"tcp6" | b"udp" | b"udp6" => {
            if rng.chance(1, 2) {
                Val::U16(gen_port(rng))
            } else {
                Val::U64(u64::from(gen_port(rng)))
            }
        }
        b"id" => Val::Str("v4".to_string()),
        b"secp256k1" | b"ed25519" | b"vs" => return None,
        _ => gen_val(rng),
    })
}

/// a value for a public-key entry: mostly a VALID key of that scheme (somebody else's), else junk
pub fn gen_pk_value(rng: &mut Rng, key: &[u8]) -> Val {
    let idx = 16 + rng.below(8) as u32;
    if rng.chance(3, 4) {
        match key {
            b"secp256k1" => return Val::Bytes(crate::byz::ref_pk(PkKind::Secp, idx)),
            b"ed25519" => return Val::Bytes(crate::byz::ref_pk(PkKind::Ed, idx)),
            b"vs" => return Val::Bytes(crate::byz::ref_pk(PkKind::Var, idx)),
            _ => {}
        }
    }
    Val::Bytes(rng.bytes(*rng.clone().pick(&[8usize, 32, 33, 65])))
}

fn variant_of(rng: &mut Rng, c: &BCall) -> BCall {
    match c {
        BCall::Seq(s) => BCall::Seq(s ^ 1),
        BCall::AddValue { key, .. } => BCall::AddValue { key: key.clone(), val: gen_conforming(rng, key).unwrap_or(Val::U16(7)) },
        BCall::AddValueRlp { key, .. } => BCall::AddValueRlp { key: key.clone(), raw: gen_conforming(rng, key).unwrap_or(Val::U16(7)).ref_rlp() },
        BCall::Ip(ip) => BCall::Ip(gen_ip(rng, ip.is_v4())),
        BCall::Ip4(_) => match gen_ip(rng, true) { IpArg::V4(a) => BCall::Ip4(a), IpArg::V6(_) => unreachable!() },
        BCall::Ip6(_) => match gen_ip(rng, false) { IpArg::V6(a) => BCall::Ip6(a), IpArg::V4(_) => unreachable!() },
        BCall::Tcp4(p) => BCall::Tcp4(p ^ 0x0101),
        BCall::Tcp6(p) => BCall::Tcp6(p ^ 0x0101),
        BCall::Udp4(p) => BCall::Udp4(p ^ 0x0101),
        BCall::Udp6(p) => BCall::Udp6(p ^ 0x0101),
        BCall::ClientInfo { name, .. } => BCall::ClientInfo { name: format!("{name}2"), version: "9".into(), build: None },
    }
}

/// malformed raw RLP: what a careless caller hands to the raw entry points
pub fn gen_bad_raw(rng: &mut Rng) -> Vec<u8> {
    match rng.below(8) {
        0 => vec![],
        1 => vec![0x83, 1, 2],             // truncated string
        2 => vec![0x01, 0x02],             // two items
        3 => vec![0x81, 0x05],             // non-canonical single byte
        4 => vec![0xb8, 0x02, 1, 2],       // long form for a short string
        5 => vec![0xc3, 0x01],             // truncated list
        6 => vec![0xbf, 0xff, 0xff, 0xff, 0xff, 0xff, 0xff, 0xff, 0xff], // absurd length
        _ => {
            let mut v = rlp::enc_str(b"ok");
            v.push(0x80); // trailing item
            v
        }
    }
}

fn pick_node(rng: &mut Rng, w: &World) -> u8 {
    rng.usize_below(w.nodes.len().max(1)) as u8
}

fn pick_slot(rng: &mut Rng, p: &Profile) -> u8 {
    if rng.chance(p.rekey_pct, 100) {
        rng.range(1, 2) as u8
    } else {
        0
    }
}

/// an insert whose result lands exactly on `target` bytes, if possible
fn pad_op(w: &World, node: usize, target: usize) -> Option<Op> {
    let m = w.nodes[node].model()?;
    let sig = w.nodes[node].backend().sig_len_fixed().unwrap_or(crate::keys::VAR_DEFAULT_SIG_LEN);
    let mut pairs: Vec<(Vec<u8>, Vec<u8>)> = m.pairs_vec().into_iter().filter(|(k, _)| k != b"zzpad").collect();
    let seq = m.seq.checked_add(1)?;
    let base = predicted_size(sig, seq, &pairs);
    if target < base + 7 {
        return None;
    }
    for n in 0..(target - base) {
        pairs.push((b"zzpad".to_vec(), rlp::enc_str(&vec![0xaa; n])));
        let s = predicted_size(sig, seq, &pairs);
        pairs.pop();
        if s == target {
            return Some(Op::Insert { key: b"zzpad".to_vec(), val: Val::Bytes(vec![0xaa; n]) });
        }
        if s > target {
            break;
        }
    }
    None
}

/// State the generator carries along one run.
#[derive(Default)]
pub struct GenState {
    pub enums_done: u32,
    pub pending: std::collections::VecDeque<Event>,
}

/// The size x seq-growth knob: a short plan `set_seq(b-2); insert(pad); O` such that the result of
/// an arbitrary update O lands on a chosen size around the limit while the sequence number's
/// encoding grows (b = 128, 256, 65536, ...) on that very update.
fn boundary_plan(rng: &mut Rng, w: &World, node: usize, p: &Profile) -> Option<Vec<Event>> {
    let mut model = w.nodes[node].model()?.clone();
    let sig = w.nodes[node].backend().sig_len_fixed()?;
    let info = crate::ops::SignerInfo { pk_kind: model.pk_kind, pk: model.pk.clone(), sig_len: sig, will_fail: false };
    let mut q = p.clone();
    q.size_knob = false;
    q.bad_arg_pct = 0;
    let o = gen_op(rng, w, node, &q);
    if matches!(o, Op::SetSeq(_)) {
        return None;
    }
    let mut evs = Vec::new();
    let n8 = node as u8;
    if rng.chance(3, 4) {
        let b: u64 = *rng.pick(&[128u64, 256, 65536, 1 << 24, 1 << 32, 1 << 40, 1 << 56]);
        model.seq = b - 2;
        evs.push(Event::Op { node: n8, slot: 0, op: Op::SetSeq(b - 2) });
    }
    let target = if rng.chance(3, 4) { rng.range(299, 302) as usize } else { rng.range(280, 320) as usize };
    let sel = match &o {
        Op::SetPublicKey(_) => Some((info.pk_kind, info.pk.clone())),
        _ => None,
    };
    for n in 0..300usize {
        let pad = Op::Insert { key: b"zzpad".to_vec(), val: Val::Bytes(vec![0xaa; n]) };
        let m1 = model.predict(&pad, &info, None).next;
        let pr = m1.predict(&o, &info, sel.clone());
        if pr.size == target {
            evs.push(Event::Op { node: n8, slot: 0, op: pad });
            evs.push(Event::Op { node: n8, slot: 0, op: o });
            return Some(evs);
        }
        if pr.size > target + 4 {
            break;
        }
    }
    None
}

pub fn gen_op(rng: &mut Rng, w: &World, node: usize, p: &Profile) -> Op {
    let bad = rng.chance(p.bad_arg_pct, 100);
    if p.size_knob && rng.chance(1, 4) {
        let target = rng.range(280, 320) as usize;
        if let Some(op) = pad_op(w, node, target) {
            return op;
        }
    }
    match rng.below(26) {
        0 | 1 => Op::SetSeq(gen_seq(rng)),
        2 | 3 | 4 => {
            let key = gen_key(rng, if bad { 60 } else { 25 });
            let val = if bad { gen_val(rng) } else { gen_conforming(rng, &key).unwrap_or_else(|| gen_pk_value(rng, &key)) };
            Op::Insert { key, val }
        }
        5 | 6 => {
            let key = gen_key(rng, if bad { 50 } else { 20 });
            let raw = if bad && rng.chance(2, 3) {
                gen_bad_raw(rng)
            } else {
                gen_conforming(rng, &key).unwrap_or_else(|| gen_pk_value(rng, &key)).ref_rlp()
            };
            Op::InsertRaw { key, raw }
        }
        7 => Op::SetIp(gen_ip(rng, rng.clone().chance(1, 2))),
        8 => Op::SetUdp4(gen_port(rng)),
        9 => Op::RemoveUdp4,
        10 => Op::SetUdp6(gen_port(rng)),
        11 => Op::RemoveUdp6,
        12 => Op::SetTcp4(gen_port(rng)),
        13 => Op::RemoveTcp,
        14 => Op::SetTcp6(gen_port(rng)),
        15 => Op::RemoveTcp6,
        16 => Op::SetClientInfo {
            name: (*rng.pick(&["", "geth", "lighthouse", "n\u{f8}de"])).to_string(),
            version: (*rng.pick(&["", "1.0", "v5.1.0-rc.1"])).to_string(),
            build: if rng.chance(1, 2) { Some((*rng.pick(&["", "linux-x86_64"])).to_string()) } else { None },
        },
        17 => Op::SetUdpSocket(gen_ip(rng, rng.clone().chance(1, 2)), gen_port(rng)),
        18 => Op::SetTcpSocket(gen_ip(rng, rng.clone().chance(1, 2)), gen_port(rng)),
        19 => match rng.below(4) {
            0 => Op::RemoveUdpSocket,
            1 => Op::RemoveUdp6Socket,
            2 => Op::RemoveTcpSocket,
            _ => Op::RemoveTcp6Socket,
        },
        20 | 21 => Op::RemoveKey(gen_key(rng, if bad { 50 } else { 30 })),
        22 | 23 => {
            let nr = rng.usize_below(3);
            let ni = rng.usize_below(3);
            let mut remove: Vec<Vec<u8>> = (0..nr).map(|_| gen_key(rng, 40)).collect();
            let mut insert: Vec<(Vec<u8>, Vec<u8>)> = Vec::new();
            for _ in 0..ni {
                let key = gen_key(rng, if bad { 60 } else { 30 });
                // remove_insert takes the string payload, not RLP
                let v = if bad {
                    gen_small_bytes(rng)
                } else {
                    match key.as_slice() {
                        b"ip" => gen_ip(rng, true).bytes(),
                        b"ip6" => gen_ip(rng, false).bytes(),
                        b"tcp" | b"tcp6" | b"udp" | b"udp6" => {
                            let be = gen_port(rng).to_be_bytes();
                            let skip = be.iter().take_while(|b| **b == 0).count();
                            be[skip..].to_vec()
                        }
                        b"id" => b"v4".to_vec(),
                        _ => gen_small_bytes(rng),
                    }
                };
                insert.push((key, v));
            }
            if !bad && !rng.chance(1, 4) {
                // mostly disjoint key sets; one time in four repeated / overlapping keys stay
                remove.sort();
                remove.dedup();
                insert.sort();
                insert.dedup_by(|a, b| a.0 == b.0);
                remove.retain(|k| !insert.iter().any(|(ik, _)| ik == k) && k != b"id");
                insert.retain(|(k, _)| !crate::ops::is_pk_entry(k));
            }
            Op::RemoveInsert { remove, insert }
        }
        24 => Op::SetPublicKey(if bad { PkSel::Slot(rng.below(3) as u8) } else { PkSel::Signer }),
        _ => Op::SetSeq(w.nodes[node].model().map_or(1, |m| m.seq)), // re-sign the same content
    }
}

pub fn gen_build(rng: &mut Rng, p: &Profile) -> Vec<BCall> {
    let mut calls = Vec::new();
    if p.seq_knob || rng.chance(1, 3) {
        calls.push(BCall::Seq(gen_seq(rng)));
    }
    // presence mask of the six address/port keys comes from the seed
    let mask = rng.below(64);
    if mask & 1 != 0 {
        calls.push(if rng.chance(1, 2) { BCall::Ip(gen_ip(rng, true)) } else if let IpArg::V4(a) = gen_ip(rng, true) { BCall::Ip4(a) } else { unreachable!() });
    }
    if mask & 2 != 0 {
        calls.push(if rng.chance(1, 2) { BCall::Ip(gen_ip(rng, false)) } else if let IpArg::V6(a) = gen_ip(rng, false) { BCall::Ip6(a) } else { unreachable!() });
    }
    if mask & 4 != 0 {
        calls.push(BCall::Tcp4(gen_port(rng)));
    }
    if mask & 8 != 0 {
        calls.push(BCall::Tcp6(gen_port(rng)));
    }
    if mask & 16 != 0 {
        calls.push(BCall::Udp4(gen_port(rng)));
    }
    if mask & 32 != 0 {
        calls.push(BCall::Udp6(gen_port(rng)));
    }
    if rng.chance(1, 4) {
        calls.push(BCall::ClientInfo {
            name: "enrsim".into(),
            version: (*rng.pick(&["0.1", ""])).to_string(),
            build: if rng.chance(1, 2) { Some("x".into()) } else { None },
        });
    }
    let extra = rng.usize_below(3);
    for _ in 0..extra {
        let bad = rng.chance(p.bad_arg_pct, 100);
        let key = gen_key(rng, if bad { 50 } else { 5 });
        if rng.chance(1, 2) {
            let val = if bad { gen_val(rng) } else { gen_conforming(rng, &key).unwrap_or_else(|| Val::Bytes(rng.bytes(8))) };
            calls.push(BCall::AddValue { key, val });
        } else {
            let raw = if bad && rng.chance(1, 2) { gen_bad_raw(rng) } else { gen_conforming(rng, &key).unwrap_or_else(|| Val::Bytes(rng.bytes(8))).ref_rlp() };
            calls.push(BCall::AddValueRlp { key, raw });
        }
    }
    if p.size_knob && rng.chance(1, 2) {
        // pad towards the limit so that later updates cross it
        let n = rng.range(60, 175) as usize;
        calls.push(BCall::AddValue { key: b"zzpad".to_vec(), val: Val::Bytes(vec![0xaa; n]) });
    }
    // "last write wins": an earlier call for the same key with another value
    if rng.chance(1, 4) && !calls.is_empty() {
        let i = rng.usize_below(calls.len());
        let v = variant_of(rng, &calls[i]);
        calls.insert(i, v);
    }
    // somebody else's (valid) public key handed to the builder: it must end up with the signer's
    if rng.chance(1, 12) {
        let key: &[u8] = *rng.pick(&[b"secp256k1".as_slice(), b"ed25519", b"vs"]);
        let val = gen_pk_value(rng, key);
        if rng.chance(1, 2) {
            calls.push(BCall::AddValue { key: key.to_vec(), val });
        } else {
            calls.push(BCall::AddValueRlp { key: key.to_vec(), raw: val.ref_rlp() });
        }
    }
    calls
}

pub fn gen_setup(rng: &mut Rng, p: &Profile) -> Vec<NodeSpec> {
    let avail = Backend::available();
    let n = rng.range(2, 5) as usize;
    let mut specs = Vec::new();
    let mut next_key = rng.below(4) as u32; // shift which pool scalars are used
    for i in 0..n {
        let backend = if i < avail.len() && rng.chance(2, 3) {
            avail[(i + rng.usize_below(avail.len())) % avail.len()]
        } else {
            *rng.pick(&avail)
        };
        // the toy scheme only matters for the history properties
        let backend = if backend == Backend::Var && !matches!(p.prop.as_str(), "C05" | "C06" | "C09" | "C03") && rng.chance(3, 4) {
            Backend::K256
        } else {
            backend
        };
        let keys = vec![next_key % 16, (next_key + 1) % 16, (next_key + 2) % 16];
        next_key += 3;
        specs.push(NodeSpec { backend, keys });
    }
    specs
}

fn gen_form(rng: &mut Rng, p: &Profile) -> Form {
    let t = if p.text_bias { 70 } else { 25 };
    let x = rng.below(100);
    if x < t {
        if rng.chance(2, 3) {
            Form::Text
        } else {
            Form::Json
        }
    } else {
        Form::Binary
    }
}

fn gen_user_pairs(rng: &mut Rng, unusual: bool) -> Vec<(Vec<u8>, Vec<u8>)> {
    let mut m: std::collections::BTreeMap<Vec<u8>, Vec<u8>> = std::collections::BTreeMap::new();
    let mask = rng.below(64);
    if mask & 1 != 0 {
        m.insert(b"ip".to_vec(), rlp::enc_str(&gen_ip(rng, true).bytes()));
    }
    if mask & 2 != 0 {
        m.insert(b"ip6".to_vec(), rlp::enc_str(&gen_ip(rng, false).bytes()));
    }
    for (bit, k) in [(4u64, b"tcp".as_slice()), (8, b"tcp6"), (16, b"udp"), (32, b"udp6")] {
        if mask & bit != 0 {
            m.insert(k.to_vec(), rlp::enc_uint(u64::from(gen_port(rng))));
        }
    }
    let n = rng.usize_below(if unusual { 5 } else { 3 });
    for _ in 0..n {
        let k = if unusual {
            rng.pick(&[b"".as_slice(), b"\x00", b"\x7f", b"\x80", b"a", b"aa", b"aaa", b"i", b"ic", b"ie", b"z"]).to_vec()
        } else {
            rng.pick(&CUSTOM_KEYS).to_vec()
        };
        let v = match rng.below(6) {
            0 => vec![0x80],
            1 => vec![rng.byte() & 0x7f],
            2 => rlp::enc_str(&rng.bytes(56)),
            3 => rlp::enc_list(&rlp::enc_list(&rlp::enc_list(&[0x80]))),
            4 => rlp::enc_list_of_strs(&[b"a", b"", b"\x80"]),
            _ => rlp::enc_str(&gen_small_bytes(rng)),
        };
        m.insert(k, v);
    }
    if unusual && rng.chance(1, 3) {
        m.insert(vec![b'K'; 57], rlp::enc_str(b"long key"));
    }
    if rng.chance(1, 5) {
        // EIP-7636 client entry: well-formed (2-3 strings) and not (0, 1, 4+ strings, nested, a string)
        let v = match rng.below(7) {
            0 => rlp::enc_list_of_strs(&[b"geth", b"1.0"]),
            1 => rlp::enc_list_of_strs(&[b"geth", b"1.0", b"linux"]),
            2 => rlp::enc_list_of_strs(&[b"geth", b"1.0", b"linux", b"extra"]),
            3 => rlp::enc_list_of_strs(&[b"geth"]),
            4 => vec![0xc0],
            5 => rlp::enc_list(&rlp::enc_list_of_strs(&[b"geth", b"1.0"])),
            _ => rlp::enc_str(b"geth/1.0"),
        };
        m.insert(b"client".to_vec(), v);
    }
    m.into_iter().collect()
}

pub fn gen_content(rng: &mut Rng, honest: bool, kinds: &[PkKind]) -> Content {
    let kind = *rng.pick(kinds);
    // honest (foreign) peers use pool scalars 0..16, Byzantine ones 16..24: the ledger oracle relies on it
    let key_idx = if honest { rng.below(16) as u32 } else { 16 + rng.below(8) as u32 };
    let mut c = Content { kind, key_idx, seq: gen_seq(rng), pairs: gen_user_pairs(rng, rng.clone().chance(1, 3)) };
    // keep templates within the size limit most of the time
    let sig = if kind == PkKind::Var { crate::keys::VAR_DEFAULT_SIG_LEN } else { 64 };
    while predicted_size(sig, c.seq, &c.full_pairs()) > 300 && !c.pairs.is_empty() {
        c.pairs.pop();
    }
    c
}

pub fn gen_rule(rng: &mut Rng) -> Rule {
    let i = rng.byte();
    match rng.below(57) {
        53 | 54 => Rule::JunkOtherKey(rng.byte()),
        55 | 56 => Rule::SigOverDigest,
        48 | 49 => Rule::EdSmallOrder(rng.byte()),
        50 => Rule::PkRawXY,
        51 | 52 => Rule::SigLeadingZeroStripped,
        46 => Rule::PkUncompressed,
        47 => Rule::InnerNonCanonList,
        0 | 1 => Rule::SwapPairs(i),
        2 | 3 => Rule::DupPair(i),
        4 => Rule::DupKeyOtherValue(i),
        5 => Rule::DropLastValue,
        6 => Rule::IdMissing,
        7 => Rule::IdOther,
        8 => Rule::IdList,
        9 => Rule::PkMissing,
        10 => Rule::PkLen(*rng.pick(&[0u8, 1, 31, 32, 34, 64])),
        11 => Rule::PkOffCurve,
        12 => Rule::PkXGeP,
        13 => Rule::PkTag(*rng.pick(&[0u8, 1, 4, 5, 6, 7])),
        14 => Rule::PkList,
        15 => Rule::IpLen(*rng.pick(&[0u8, 3, 5, 16])),
        16 => Rule::IpList,
        17 => Rule::Ip6Len(*rng.pick(&[0u8, 4, 15, 17])),
        18 | 19 => Rule::PortLeadingZero(i),
        20 => Rule::Port3Bytes(i),
        21 => Rule::PortZeroByte(i),
        22 => Rule::PortList(i),
        23 => Rule::SeqLeadingZero,
        24 => Rule::Seq9Bytes,
        25 => Rule::SeqList,
        26 => Rule::SeqZeroByte,
        27 => Rule::SigList,
        28 => Rule::SigLen(*rng.pick(&[0u8, 1, 63, 65, 32])),
        29 | 30 => Rule::NonCanon(match rng.below(5) {
            0 => Pos::Outer,
            1 => Pos::Sig,
            2 => Pos::Seq,
            3 => Pos::Key(i),
            _ => Pos::Val(i),
        }),
        31 => Rule::OuterString,
        32 => Rule::OuterLenDelta(*rng.pick(&[-3i8, -1, 1, 2, 5])),
        33 => Rule::ItemOverrun,
        34 => Rule::ExtraItem,
        35 => Rule::EmptyList,
        36 => Rule::OnlySig,
        37 => Rule::OnlySigSeq,
        38 | 39 | 40 => Rule::PadTo(rng.range(297, 304) as u16),
        41 | 42 => Rule::BothKeys(rng.below(24) as u32),
        43 => Rule::OtherSchemeEntryOnly,
        _ => Rule::None,
    }
}

pub fn gen_tamper(rng: &mut Rng, w: &World) -> Tamper {
    match rng.below(20) {
        17 => Tamper::SigDer,
        18 | 19 => Tamper::ShadowPair(rng.byte()),
        0 => Tamper::SeqTo(gen_seq(rng)),
        1 => Tamper::KeyRename(rng.byte()),
        2 | 3 => Tamper::ValueFlip(rng.byte()),
        4 => Tamper::AddPair,
        5 => Tamper::RemovePair(rng.byte()),
        6 => Tamper::PkSwap(16 + rng.below(8) as u32),
        7 | 8 => Tamper::ResignWrongKey(16 + rng.below(8) as u32),
        9 => {
            // a signature some honest key really produced for another record
            let sigs: Vec<&Vec<u8>> = w.cx.ledger.values().flat_map(|s| s.iter().map(|(_, sg)| sg)).collect();
            if sigs.is_empty() {
                Tamper::SigBitFlip(rng.next_u64() as u16)
            } else {
                Tamper::SigFromOther((*rng.pick(&sigs)).clone())
            }
        }
        10 | 11 => Tamper::HighS,
        12 => Tamper::SigLen(*rng.pick(&[0u8, 63, 65, 32, 128])),
        13 => rng.pick(&[Tamper::SigRZero, Tamper::SigSZero, Tamper::SigRGeN, Tamper::SigSGeN]).clone(),
        14 => Tamper::EdSPlusL,
        _ => Tamper::SigBitFlip(rng.next_u64() as u16),
    }
}

pub fn gen_netfault(rng: &mut Rng) -> NetFault {
    let i = rng.next_u64() as u32;
    match rng.below(12) {
        0 => NetFault::Drop,
        1 => NetFault::Duplicate,
        2 | 3 | 4 => NetFault::FlipBit(i),
        5 => NetFault::SetByte(i, rng.byte()),
        6 => NetFault::Insert(i, rng.bytes(rng.clone().range(1, 4) as usize)),
        7 => NetFault::Delete(i, rng.range(1, 4) as u8),
        8 => NetFault::Truncate(i),
        9 => NetFault::DupChunk(i, rng.range(1, 40) as u8),
        10 => NetFault::Splice(rng.next_u64() as u16, i),
        _ => NetFault::AppendSuffix(rng.bytes(rng.clone().range(1, 40) as usize)),
    }
}

pub fn gen_txtfault(rng: &mut Rng) -> NetFault {
    let i = rng.next_u64() as u32;
    match rng.below(14) {
        0 => NetFault::TxtAppend((*rng.pick(&["\n", " ", "\r\n", "A", "=", "==", "\t", "enr:", "\u{a0}", "AA", "-", "_"])).to_string()),
        1 => NetFault::TxtInsert(i, *rng.pick(&[' ', '\n', '=', '+', '/', '.', 'A', '\u{e9}'])),
        2 => NetFault::TxtStdAlphabet,
        3 => NetFault::TxtPad(rng.range(1, 3) as u8),
        4 => NetFault::TxtPrefix((*rng.pick(&["ENR:", "Enr:", "enr", "enr::", "enr;", " enr:", "e nr:", "", "enr\u{e9}", "en\u{20ac}:", "e\u{e9}r:", "\u{e9}nr:", "e\u{1F600}"])).to_string()),
        5 | 6 => NetFault::TxtTrailingBits(rng.byte()),
        7 | 8 | 9 => NetFault::TxtBytesAfterRecord(rng.bytes(rng.clone().range(1, 8) as usize)),
        10 => NetFault::TxtDoublePrefix,
        11 => NetFault::TxtStripPrefix,
        12 => NetFault::Truncate(i),
        _ => NetFault::FlipBit(i),
    }
}

pub fn gen_noise(rng: &mut Rng) -> (Vec<u8>, Form) {
    match rng.below(8) {
        0 => {
            let n = *rng.pick(&[0usize, 1, 1, 1, 2, 2, 3, 5, 8, 12]);
            let mut b = rng.bytes(n);
            if n > 0 && rng.chance(1, 2) {
                let l = b.len() - 1;
                b[l] &= 0x7f; // ends in a single-byte item
            }
            (b, Form::Binary)
        }
        1 => {
            // plausible list header then junk
            let n = rng.range(0, 310) as usize;
            let mut v = rlp::enc_list(&rng.bytes(n));
            if rng.chance(1, 2) {
                v.truncate(v.len() / 2);
            }
            (v, Form::Binary)
        }
        2 => ((*rng.pick(&["", "e", "en", "enr", "enr:", "enr:A", "\u{e9}\u{e9}", "\u{1F600}", "enr:\u{e9}", "enr\u{e9}", "en\u{20ac}:AAAA", "e\u{1F600}", "\u{20ac}\u{20ac}", "a\u{e9}b\u{e9}c", "\u{e9}nr:AAAA", "e\u{e9}r:AAAA", "en\u{e9}:AAAA", "enr\u{e9}AAAA"])).as_bytes().to_vec(), Form::Text),
        3 => {
            let n = rng.range(0, 60) as usize;
            let s: String = (0..n).map(|_| *rng.pick(&['A', 'Q', '-', '_', '=', ' ', 'z', '9'])).collect();
            (format!("enr:{s}").into_bytes(), Form::Text)
        }
        4 => ((*rng.pick(&["", "\"", "\"\"", "null", "5", "[]", "\"enr:\"", "{\"a\":1}", "\"\\u0065nr:AA\"", "\"enr\u{e9}\"", "\"en\u{20ac}:AAAA\"", "\"e\u{1F600}\"", "\"en\\u00e9:AAAA\""])).as_bytes().to_vec(), Form::Json),
        5 => (vec![0xc0], Form::Binary),
        6 => {
            let b = rng.bytes(rng.clone().range(1, 80) as usize);
            (crate::reftext::text_form(&b).into_bytes(), Form::Text)
        }
        _ => (rng.bytes(rng.clone().range(280, 320) as usize), Form::Binary),
    }
}

/// Draw the next event of a run.
#[allow(clippy::too_many_lines)]
pub fn gen_event(rng: &mut Rng, w: &World, p: &Profile, st: &mut GenState) -> Event {
    if let Some(e) = st.pending.pop_front() {
        return e;
    }
    let enums_done = &mut st.enums_done;
    // nodes without a record build one first
    for i in 0..w.nodes.len() {
        if !w.nodes[i].has_record() && !w.crashed[i] && rng.chance(3, 4) {
            return Event::Build { node: i as u8, slot: 0, calls: gen_build(rng, p), reuse: None };
        }
    }
    let has_var = w.nodes.iter().any(|n| n.backend() == Backend::Var);
    let kinds: Vec<PkKind> = {
        let mut k = vec![PkKind::Secp];
        if crate::keys::DecType::available().contains(&crate::keys::DecType::Ed) {
            k.push(PkKind::Ed);
        }
        k
    };
    let have_msgs = !w.msgs.is_empty();
    let weights = [
        p.w_op,
        p.w_build,
        p.w_arm,
        if has_var { p.w_varlen } else { 0 },
        p.w_publish,
        p.w_foreign,
        p.w_byz,
        if have_msgs { p.w_tamper } else { 0 },
        if have_msgs { p.w_fault } else { 0 },
        if have_msgs { p.w_txtfault } else { 0 },
        if have_msgs { p.w_deliver } else { 0 },
        if have_msgs { p.w_stream } else { 0 },
        if have_msgs { p.w_sweep } else { 0 },
        p.w_noise,
        p.w_persist,
        p.w_crash,
        p.w_diskfault,
        p.w_partition,
        if have_msgs && *enums_done < p.max_enum { p.w_enum } else { 0 },
        p.w_poolcheck,
    ];
    // faults are biased to land on recent messages (in-flight state)
    let recent_msg = |rng: &mut Rng| -> u16 {
        let n = w.msgs.len().max(1);
        if rng.chance(3, 4) {
            (n - 1 - rng.usize_below(n.min(4))) as u16
        } else {
            rng.usize_below(n) as u16
        }
    };
    let pristine_msg = |rng: &mut Rng| -> u16 {
        let cands: Vec<usize> = w.msgs.iter().enumerate().filter(|(_, m)| m.how == "honest" || m.how == "foreign").map(|(i, _)| i).collect();
        if cands.is_empty() {
            recent_msg(rng)
        } else if rng.chance(2, 3) {
            cands[cands.len() - 1 - rng.usize_below(cands.len().min(3))] as u16
        } else {
            *rng.pick(&cands) as u16
        }
    };
    match rng.weighted(&weights) {
        0 => {
            let node = pick_node(rng, w);
            let n = usize::from(node) % w.nodes.len();
            if p.size_knob && rng.chance(1, 6) && w.nodes[n].has_record() && !w.crashed[n] {
                if let Some(plan) = boundary_plan(rng, w, n, p) {
                    st.pending.extend(plan);
                    return st.pending.pop_front().expect("plan is not empty");
                }
            }
            Event::Op { node, slot: pick_slot(rng, p), op: gen_op(rng, w, n, p) }
        }
        1 => Event::Build { node: pick_node(rng, w), slot: pick_slot(rng, p), calls: gen_build(rng, p), reuse: if rng.chance(1, 5) { Some(rng.below(2) as u8) } else { None } },
        2 => Event::ArmSigner { node: pick_node(rng, w), slot: if rng.chance(3, 4) { 0 } else { rng.range(1, 2) as u8 }, nth: rng.range(1, 3) },
        3 => {
            let vars: Vec<usize> = w.nodes.iter().enumerate().filter(|(_, n)| n.backend() == Backend::Var).map(|(i, _)| i).collect();
            Event::VarLen { node: *rng.pick(&vars) as u8, slot: 0, len: *rng.pick(&[1u16, 2, 16, 40, 41, 48, 55, 56, 57, 64, 80, 96, 120, 200, 255]) }
        }
        4 => Event::Publish { node: pick_node(rng, w), form: gen_form(rng, p), deliver: rng.chance(3, 4) },
        5 => Event::Foreign { content: gen_content(rng, true, &kinds), form: gen_form(rng, p), deliver: rng.chance(3, 4) },
        6 => Event::Byz { content: gen_content(rng, false, &kinds), rule: gen_rule(rng), canon_sig: rng.chance(1, 2), form: if rng.chance(1, 6) { gen_form(rng, p) } else { Form::Binary }, deliver: true },
        7 => Event::Tamper { msg: pristine_msg(rng), kind: gen_tamper(rng, w), deliver: true },
        8 => Event::Fault { msg: if rng.chance(3, 4) { pristine_msg(rng) } else { recent_msg(rng) }, fault: gen_netfault(rng), deliver: rng.chance(9, 10) },
        9 => {
            // text faults need a text message: pick one if there is any
            // mostly pristine text; one time in four a text that already carries a text fault (faults stack)
            let stack = rng.chance(1, 4);
            let cands: Vec<usize> = w.msgs.iter().enumerate().filter(|(_, m)| m.form != Form::Binary && (m.how == "honest" || m.how == "foreign" || (stack && m.how.starts_with("fault:Txt")))).map(|(i, _)| i).collect();
            if cands.is_empty() {
                Event::Publish { node: pick_node(rng, w), form: if rng.chance(2, 3) { Form::Text } else { Form::Json }, deliver: true }
            } else {
                Event::Fault { msg: cands[cands.len() - 1 - rng.usize_below(cands.len().min(4))] as u16, fault: gen_txtfault(rng), deliver: true }
            }
        }
        10 => Event::Deliver { msg: recent_msg(rng) },
        11 => {
            let k = rng.range(1, 8) as usize;
            let bins: Vec<usize> = w.msgs.iter().enumerate().filter(|(_, m)| m.form == Form::Binary && !m.data.is_empty()).map(|(i, _)| i).collect();
            if bins.is_empty() {
                Event::Publish { node: pick_node(rng, w), form: Form::Binary, deliver: false }
            } else {
                let valid: Vec<usize> = bins.iter().copied().filter(|i| { let h = &w.msgs[*i].how; h == "honest" || h == "foreign" }).collect();
                let msgs: Vec<u16> = (0..k).map(|_| if !valid.is_empty() && rng.chance(4, 5) { *rng.pick(&valid) as u16 } else { *rng.pick(&bins) as u16 }).collect();
                let suffix = match rng.below(4) {
                    0 => vec![],
                    1 => rng.bytes(rng.clone().range(1, 10) as usize),
                    2 => vec![0u8; rng.range(1, 400) as usize],
                    _ => rng.bytes(rng.clone().range(100, 1000) as usize),
                };
                Event::Stream { msgs, suffix, list: rng.chance(2, 5) }
            }
        }
        12 if rng.chance(1, 8) => Event::CutSweep { a: pristine_msg(rng), b: if rng.chance(2, 3) { pristine_msg(rng) } else { recent_msg(rng) } },
        12 => Event::SuffixSweep { msg: if rng.chance(3, 4) { pristine_msg(rng) } else { recent_msg(rng) }, fill: *rng.pick(&[0u8, 0x80, 0xc0, 0xf9, 0xff, 0x01]) },
        13 => {
            let (data, form) = gen_noise(rng);
            Event::Noise { data, form }
        }
        14 => Event::Persist { node: pick_node(rng, w), form: gen_form(rng, p), sync: rng.chance(2, 3) },
        15 => {
            if rng.chance(1, 2) {
                Event::Crash { node: pick_node(rng, w) }
            } else {
                Event::Restart { node: pick_node(rng, w) }
            }
        }
        16 => Event::Disk {
            node: pick_node(rng, w),
            fault: match rng.below(4) {
                0 => DiskFault::Torn(rng.next_u64() as u32),
                1 => DiskFault::BitRot(rng.next_u64() as u32),
                2 => DiskFault::LostWrite,
                _ => DiskFault::ShortRead(rng.next_u64() as u32),
            },
        },
        17 => {
            if rng.chance(1, 2) {
                Event::Partition { node: pick_node(rng, w) }
            } else {
                Event::Heal
            }
        }
        18 => {
            *enums_done += 1;
            match rng.below(8) {
                0..=4 => Event::EnumFlips { msg: pristine_msg(rng) },
                5 => Event::EnumTruncs { msg: pristine_msg(rng) },
                _ => Event::EnumEdits { msg: pristine_msg(rng), byte: *rng.pick(&[0u8, 0x01, 0x80, 0xff, 0x41]) },
            }
        }
        _ => Event::PoolCheck,
    }
}

/// If a node crashed, bring it back with some probability (so that runs make progress).
pub fn maybe_restart(rng: &mut Rng, w: &World) -> Option<Event> {
    for i in 0..w.nodes.len() {
        if w.crashed[i] && rng.chance(1, 2) {
            return Some(Event::Restart { node: i as u8 });
        }
    }
    None
}
