//! R2 — reference record decoder / encoder: the C02 statement transcribed clause by clause.
//! Never calls into `enr`.

use crate::refcrypto::{self as rc, EdPkClass, Lib};
use crate::refrlp::{self as rlp, Item};
use serde::{Deserialize, Serialize};

pub const MAX: usize = 300;

/// What the decoding side supports.
#[derive(Clone, Copy, Debug, PartialEq, Eq, PartialOrd, Ord, Serialize, Deserialize)]
pub enum Scheme {
    Secp,
    Ed,
    Combined,
    Var,
}

#[derive(Clone, Copy, Debug, PartialEq, Eq, PartialOrd, Ord, Serialize, Deserialize)]
pub enum PkKind {
    Secp,
    Ed,
    Var,
}

impl PkKind {
    pub fn entry_key(self) -> &'static [u8] {
        match self {
            PkKind::Secp => b"secp256k1",
            PkKind::Ed => b"ed25519",
            PkKind::Var => crate::keys::VAR_ENR_KEY,
        }
    }
}

#[derive(Clone, Debug, PartialEq, Eq)]
pub struct Fields {
    pub sig: Vec<u8>,
    pub seq: u64,
    /// key -> raw RLP value, in input (= sorted) order
    pub pairs: Vec<(Vec<u8>, Vec<u8>)>,
    /// bytes of the first item (what a decoder consumes)
    pub total_len: usize,
    pub signed_payload: Vec<u8>,
    pub pk_kind: PkKind,
    pub pk_bytes: Vec<u8>,
    pub node_id: [u8; 32],
}

#[derive(Clone, Debug, PartialEq, Eq)]
pub enum Verdict {
    Accept(Box<Fields>),
    Reject(&'static str),
    /// the property leaves this input open; counted, never judged
    Excluded(&'static str),
}

impl Verdict {
    pub fn tag(&self) -> &'static str {
        match self {
            Verdict::Accept(_) => "accept",
            Verdict::Reject(_) => "reject",
            Verdict::Excluded(_) => "excluded",
        }
    }
}

pub fn signed_payload(seq: u64, pairs: &[(Vec<u8>, Vec<u8>)]) -> Vec<u8> {
    let mut p = rlp::enc_uint(seq);
    for (k, v) in pairs {
        p.extend_from_slice(&rlp::enc_str(k));
        p.extend_from_slice(v);
    }
    rlp::enc_list(&p)
}

pub fn encode_record(sig: &[u8], seq: u64, pairs: &[(Vec<u8>, Vec<u8>)]) -> Vec<u8> {
    let mut p = rlp::enc_str(sig);
    p.extend_from_slice(&rlp::enc_uint(seq));
    for (k, v) in pairs {
        p.extend_from_slice(&rlp::enc_str(k));
        p.extend_from_slice(v);
    }
    rlp::enc_list(&p)
}

pub fn predicted_size(sig_len: usize, seq: u64, pairs: &[(Vec<u8>, Vec<u8>)]) -> usize {
    let mut n = rlp::enc_str(&vec![0x80u8; sig_len]).len() + rlp::enc_uint(seq).len();
    for (k, v) in pairs {
        n += rlp::enc_str(k).len() + v.len();
    }
    n + rlp::header_len_for(n)
}

fn str_payload<'a>(it: &Item<'a>) -> Option<&'a [u8]> {
    if it.list {
        None
    } else {
        Some(it.payload)
    }
}

/// Node id from public-key bytes, derived without `enr`.
pub fn node_id_of(kind: PkKind, pk: &[u8], lib: Lib) -> Option<[u8; 32]> {
    match kind {
        PkKind::Secp => rc::secp_uncompressed(pk, lib).map(|u| rc::keccak256(&u)),
        PkKind::Ed | PkKind::Var => Some(rc::keccak256(pk)),
    }
}

/// Decide the first item of `buf`.
pub fn parse(buf: &[u8], scheme: Scheme, lib: Lib) -> Verdict {
    let outer = match rlp::parse_item(buf) {
        Ok(i) => i,
        Err(_) => return Verdict::Reject("outer item malformed"),
    };
    if !outer.list {
        return Verdict::Reject("outer item is not a list");
    }
    if outer.total_len > MAX {
        return Verdict::Reject("more than 300 bytes");
    }
    let items = match rlp::split_items(outer.payload) {
        Ok(v) => v,
        Err(_) => return Verdict::Reject("item framing inside the list"),
    };
    if items.len() < 2 {
        return Verdict::Reject("signature or seq missing");
    }
    let Some(sig) = str_payload(&items[0].0) else {
        return Verdict::Reject("signature is a list");
    };
    let Some(seq_p) = str_payload(&items[1].0) else {
        return Verdict::Reject("seq is a list");
    };
    let Some(seq) = rlp::uint_from_payload(seq_p, 8) else {
        return Verdict::Reject("seq not a canonical integer below 2^64");
    };
    let rest = &items[2..];
    if rest.len() % 2 != 0 {
        return Verdict::Reject("key without value");
    }
    let mut excluded: Option<&'static str> = None;
    let mut pairs: Vec<(Vec<u8>, Vec<u8>)> = Vec::new();
    let mut prev: Option<&[u8]> = None;
    for kv in rest.chunks(2) {
        let Some(key) = str_payload(&kv[0].0) else {
            return Verdict::Reject("key is a list");
        };
        if let Some(p) = prev {
            if p >= key {
                return Verdict::Reject("keys not strictly increasing");
            }
        }
        prev = Some(key);
        let (vit, vraw) = (&kv[1].0, kv[1].1);
        match key {
            b"id" => {
                if str_payload(vit) != Some(b"v4".as_slice()) {
                    return Verdict::Reject("id is not v4");
                }
            }
            b"ip" => {
                if str_payload(vit).map(<[u8]>::len) != Some(4) {
                    return Verdict::Reject("ip is not 4 bytes");
                }
            }
            b"ip6" => {
                if str_payload(vit).map(<[u8]>::len) != Some(16) {
                    return Verdict::Reject("ip6 is not 16 bytes");
                }
            }
            b"tcp" | b"udp" | b"tcp6" | b"udp6" => {
                let ok = str_payload(vit)
                    .and_then(|p| rlp::uint_from_payload(p, 2))
                    .is_some();
                if !ok {
                    return Verdict::Reject("port not a canonical integer below 2^16");
                }
            }
            b"secp256k1" | b"ed25519" => {
                // the entry of the record's own scheme is judged below; the statement says nothing
                // about the other scheme's entry being a list, so that is left open
                if vit.list {
                    excluded = Some("public-key entry is a list");
                }
            }
            _ => {
                if vit.list && !rlp::deep_canonical(vraw) {
                    excluded = Some("inner bytes of a list value under an unknown key");
                }
            }
        }
        pairs.push((key.to_vec(), vraw.to_vec()));
    }
    if !pairs.iter().any(|(k, _)| k == b"id") {
        return Verdict::Reject("id missing");
    }

    let entry = |name: &[u8]| -> Option<Option<Vec<u8>>> {
        // None: absent; Some(None): present but a list; Some(Some(bytes)): string payload
        pairs.iter().find(|(k, _)| k == name).map(|(_, v)| {
            let it = rlp::parse_item(v).expect("re-parse");
            if it.list {
                None
            } else {
                Some(it.payload.to_vec())
            }
        })
    };

    // which public key decides
    let secp_entry = entry(b"secp256k1");
    let ed_entry = entry(b"ed25519");
    let var_entry = entry(crate::keys::VAR_ENR_KEY);

    let judge_secp = |e: &Option<Option<Vec<u8>>>| -> Result<Vec<u8>, Verdict> {
        match e {
            None => Err(Verdict::Reject("secp256k1 entry missing")),
            Some(None) => Err(Verdict::Reject("secp256k1 entry is a list")),
            Some(Some(b)) => {
                if b.len() == 65 {
                    Err(Verdict::Excluded("65-byte SEC1 public key"))
                } else if rc::secp_pk_valid33(b, lib) {
                    Ok(b.clone())
                } else {
                    Err(Verdict::Reject("secp256k1 entry is not a valid compressed key"))
                }
            }
        }
    };
    let judge_ed = |e: &Option<Option<Vec<u8>>>| -> Result<Vec<u8>, Verdict> {
        match e {
            None => Err(Verdict::Reject("ed25519 entry missing")),
            Some(None) => Err(Verdict::Reject("ed25519 entry is a list")),
            Some(Some(b)) => match rc::ed_pk_class(b) {
                EdPkClass::Valid => Ok(b.clone()),
                EdPkClass::Invalid => Err(Verdict::Reject("ed25519 entry is not a valid key")),
                EdPkClass::Excluded => Err(Verdict::Excluded("weak or non-canonical ed25519 key")),
            },
        }
    };

    let (pk_kind, pk_bytes) = match scheme {
        Scheme::Secp => match judge_secp(&secp_entry) {
            Ok(b) => (PkKind::Secp, b),
            Err(v) => return v,
        },
        Scheme::Ed => match judge_ed(&ed_entry) {
            Ok(b) => (PkKind::Ed, b),
            Err(v) => return v,
        },
        Scheme::Combined => match judge_secp(&secp_entry) {
            Ok(b) => (PkKind::Secp, b),
            Err(Verdict::Excluded(w)) => return Verdict::Excluded(w),
            Err(_) => match judge_ed(&ed_entry) {
                Ok(b) => (PkKind::Ed, b),
                Err(v) => return v,
            },
        },
        Scheme::Var => match &var_entry {
            Some(Some(b)) if b.len() == crate::keys::VAR_PK_LEN => (PkKind::Var, b.clone()),
            _ => return Verdict::Reject("toy-scheme key entry missing or malformed"),
        },
    };

    let payload = signed_payload(seq, &pairs);
    let sig_ok = match pk_kind {
        PkKind::Secp => rc::secp_verify(&pk_bytes, &rc::keccak256(&payload), sig, lib),
        PkKind::Ed => rc::ed_verify(&pk_bytes, &payload, sig),
        PkKind::Var => crate::keys::var_verify(&pk_bytes, &payload, sig),
    };
    if !sig_ok {
        return Verdict::Reject("signature invalid");
    }
    if let Some(w) = excluded {
        return Verdict::Excluded(w);
    }
    let Some(node_id) = node_id_of(pk_kind, &pk_bytes, lib) else {
        return Verdict::Reject("node id underivable");
    };
    Verdict::Accept(Box::new(Fields {
        sig: sig.to_vec(),
        seq,
        pairs,
        total_len: outer.total_len,
        signed_payload: payload,
        pk_kind,
        pk_bytes,
        node_id,
    }))
}
