//! The only source of choices in a run: xoshiro256** seeded through splitmix64.

#[derive(Clone, Debug)]
pub struct Rng {
    s: [u64; 4],
}

pub fn splitmix64(state: &mut u64) -> u64 {
    *state = state.wrapping_add(0x9E37_79B9_7F4A_7C15);
    let mut z = *state;
    z = (z ^ (z >> 30)).wrapping_mul(0xBF58_476D_1CE4_E5B9);
    z = (z ^ (z >> 27)).wrapping_mul(0x94D0_49BB_1331_11EB);
    z ^ (z >> 31)
}

/// Derive a sub-seed from a root seed and a list of labels (property, flavour, run index ...).
pub fn derive(root: u64, labels: &[u64]) -> u64 {
    let mut st = root ^ 0xA076_1D64_78BD_642F;
    let mut out = splitmix64(&mut st);
    for l in labels {
        st ^= l.wrapping_mul(0xE703_7ED1_A0B4_28DB);
        out = splitmix64(&mut st) ^ out.rotate_left(17);
    }
    out
}

pub fn label(s: &str) -> u64 {
    // FNV-1a, only to turn a short label into a number
    let mut h: u64 = 0xcbf2_9ce4_8422_2325;
    for b in s.bytes() {
        h ^= u64::from(b);
        h = h.wrapping_mul(0x0000_0100_0000_01B3);
    }
    h
}

impl Rng {
    pub fn new(seed: u64) -> Self {
        let mut st = seed;
        let s = [
            splitmix64(&mut st),
            splitmix64(&mut st),
            splitmix64(&mut st),
            splitmix64(&mut st),
        ];
        Self { s }
    }

    pub fn next_u64(&mut self) -> u64 {
        let result = self.s[1].wrapping_mul(5).rotate_left(7).wrapping_mul(9);
        let t = self.s[1] << 17;
        self.s[2] ^= self.s[0];
        self.s[3] ^= self.s[1];
        self.s[1] ^= self.s[2];
        self.s[0] ^= self.s[3];
        self.s[2] ^= t;
        self.s[3] = self.s[3].rotate_left(45);
        result
    }

    /// Uniform in 0..n (n > 0).
    pub fn below(&mut self, n: u64) -> u64 {
        debug_assert!(n > 0);
        // multiply-shift; bias is irrelevant here
        ((u128::from(self.next_u64()) * u128::from(n)) >> 64) as u64
    }

    pub fn usize_below(&mut self, n: usize) -> usize {
        self.below(n as u64) as usize
    }

    /// Inclusive range.
    pub fn range(&mut self, lo: u64, hi: u64) -> u64 {
        lo + self.below(hi - lo + 1)
    }

    pub fn chance(&mut self, num: u64, den: u64) -> bool {
        self.below(den) < num
    }

    pub fn pick<'a, T>(&mut self, xs: &'a [T]) -> &'a T {
        &xs[self.usize_below(xs.len())]
    }

    pub fn bytes(&mut self, n: usize) -> Vec<u8> {
        let mut v = Vec::with_capacity(n);
        while v.len() < n {
            let x = self.next_u64().to_le_bytes();
            let take = (n - v.len()).min(8);
            v.extend_from_slice(&x[..take]);
        }
        v
    }

    pub fn byte(&mut self) -> u8 {
        (self.next_u64() >> 56) as u8
    }

    /// Index drawn according to integer weights.
    pub fn weighted(&mut self, weights: &[u32]) -> usize {
        let total: u64 = weights.iter().map(|w| u64::from(*w)).sum();
        let mut x = self.below(total.max(1));
        for (i, w) in weights.iter().enumerate() {
            let w = u64::from(*w);
            if x < w {
                return i;
            }
            x -= w;
        }
        weights.len() - 1
    }
}
