//! The simulated world: nodes, network, disks; explicit events; one `apply` per event.

use crate::battery::{hex, viol};
use crate::byz::{self, Content, Rule, Tamper};
use crate::ctx::Cx;
use crate::keys::{Backend, DecType, KeySpec};
use crate::ops::{BCall, Op};
use crate::owner::{make_owner, DynOwner};
use crate::refcrypto::Lib;
use crate::refrec::{self, Scheme, Verdict};
use crate::refrlp as rlp;
use crate::reftext;
use crate::wire;
use serde::{Deserialize, Serialize};
use std::collections::{BTreeMap, BTreeSet};

#[derive(Clone, Copy, Debug, PartialEq, Eq, Serialize, Deserialize)]
pub enum Form {
    Binary,
    Text,
    Json,
}

#[derive(Clone, Debug, PartialEq, Eq, Serialize, Deserialize)]
pub enum NetFault {
    Drop,
    Duplicate,
    FlipBit(u32),
    SetByte(u32, u8),
    Insert(u32, Vec<u8>),
    Delete(u32, u8),
    Truncate(u32),
    DupChunk(u32, u8),
    Splice(u16, u32),
    AppendSuffix(Vec<u8>),
    TxtAppend(String),
    TxtInsert(u32, char),
    TxtStdAlphabet,
    TxtPad(u8),
    TxtPrefix(String),
    TxtTrailingBits(u8),
    TxtBytesAfterRecord(Vec<u8>),
    TxtDoublePrefix,
    TxtStripPrefix,
}

impl NetFault {
    pub fn name(&self) -> String {
        let s = format!("{self:?}");
        s.split(['(', '{', ' ']).next().unwrap_or("?").to_string()
    }
}

#[derive(Clone, Debug, PartialEq, Eq, Serialize, Deserialize)]
pub enum DiskFault {
    /// only the first n bytes of the pending write reach the platter, over the old image
    Torn(u32),
    BitRot(u32),
    LostWrite,
    ShortRead(u32),
}

#[derive(Clone, Debug, PartialEq, Eq, Serialize, Deserialize)]
pub enum Event {
    Build {
        node: u8,
        slot: u8,
        calls: Vec<BCall>,
        /// the same builder first builds with this other key of the node (result discarded)
        #[serde(default)]
        reuse: Option<u8>,
    },
    Op { node: u8, slot: u8, op: Op },
    ArmSigner { node: u8, slot: u8, nth: u64 },
    /// fail exactly the at-th signing call (counted from the start of the run) of that key
    ArmAbs { node: u8, slot: u8, at: u64 },
    VarLen { node: u8, slot: u8, len: u16 },
    Publish { node: u8, form: Form, deliver: bool },
    Foreign { content: Content, form: Form, deliver: bool },
    Byz { content: Content, rule: Rule, canon_sig: bool, form: Form, deliver: bool },
    Tamper { msg: u16, kind: Tamper, deliver: bool },
    Fault { msg: u16, fault: NetFault, deliver: bool },
    Deliver { msg: u16 },
    EnumFlips { msg: u16 },
    EnumTruncs { msg: u16 },
    /// every single-byte deletion and every single-byte insertion (of `byte`) of a message
    EnumEdits { msg: u16, byte: u8 },
    /// two frames back to back, cut at every point after the first: a torn tail must not change
    /// what the first frame decodes to
    CutSweep { a: u16, b: u16 },
    Stream { msgs: Vec<u16>, suffix: Vec<u8>, list: bool },
    SuffixSweep { msg: u16, fill: u8 },
    Noise { data: Vec<u8>, form: Form },
    Persist { node: u8, form: Form, sync: bool },
    Crash { node: u8 },
    Restart { node: u8 },
    Disk { node: u8, fault: DiskFault },
    Partition { node: u8 },
    Heal,
    PoolCheck,
    Tail,
}

impl Event {
    pub fn name(&self) -> &'static str {
        match self {
            Event::Build { .. } => "Build",
            Event::Op { .. } => "Op",
            Event::ArmSigner { .. } => "ArmSigner",
            Event::ArmAbs { .. } => "ArmAbs",
            Event::VarLen { .. } => "VarLen",
            Event::Publish { .. } => "Publish",
            Event::Foreign { .. } => "Foreign",
            Event::Byz { .. } => "Byz",
            Event::Tamper { .. } => "Tamper",
            Event::Fault { .. } => "Fault",
            Event::Deliver { .. } => "Deliver",
            Event::EnumFlips { .. } => "EnumFlips",
            Event::EnumTruncs { .. } => "EnumTruncs",
            Event::EnumEdits { .. } => "EnumEdits",
            Event::CutSweep { .. } => "CutSweep",
            Event::Stream { .. } => "Stream",
            Event::SuffixSweep { .. } => "SuffixSweep",
            Event::Noise { .. } => "Noise",
            Event::Persist { .. } => "Persist",
            Event::Crash { .. } => "Crash",
            Event::Restart { .. } => "Restart",
            Event::Disk { .. } => "Disk",
            Event::Partition { .. } => "Partition",
            Event::Heal => "Heal",
            Event::PoolCheck => "PoolCheck",
            Event::Tail => "Tail",
        }
    }
}

#[derive(Clone, Debug, PartialEq, Eq, Serialize, Deserialize)]
pub struct NodeSpec {
    pub backend: Backend,
    /// key pool indices; slot 0 is the node's own key
    pub keys: Vec<u32>,
}

#[derive(Clone, Debug)]
pub struct Msg {
    pub data: Vec<u8>,
    pub form: Form,
    /// class label used in transitions and fingerprints
    pub how: String,
    pub dropped: bool,
}

#[derive(Clone, Debug)]
pub struct Image {
    pub form: Form,
    pub bytes: Vec<u8>,
    /// encoding of the record if this is an intact image of a record the node persisted
    pub expect: Option<Vec<u8>>,
}

#[derive(Clone, Debug, Default)]
pub struct Disk {
    pub durable: Option<Image>,
    pub pending: Option<Image>,
}

pub struct World {
    pub nodes: Vec<Box<dyn DynOwner>>,
    pub msgs: Vec<Msg>,
    pub disks: Vec<Disk>,
    pub crashed: Vec<bool>,
    /// per node: node id -> (highest seq seen, encoding)
    pub tables: Vec<BTreeMap<[u8; 32], (u64, Vec<u8>)>>,
    pub partitioned: BTreeSet<usize>,
    pub decs: Vec<DecType>,
    pub cx: Cx,
}

fn form_code(f: Form) -> u8 {
    match f {
        Form::Binary => 0,
        Form::Text => 1,
        Form::Json => 2,
    }
}

pub fn render(encoded: &[u8], form: Form) -> Vec<u8> {
    match form {
        Form::Binary => encoded.to_vec(),
        Form::Text => reftext::text_form(encoded).into_bytes(),
        Form::Json => format!("\"{}\"", reftext::text_form(encoded)).into_bytes(),
    }
}

/// the binary record inside a message, if its text layer is intact
pub fn binary_of(m: &Msg) -> Option<Vec<u8>> {
    match m.form {
        Form::Binary => Some(m.data.clone()),
        Form::Text | Form::Json => {
            let s = std::str::from_utf8(&m.data).ok()?;
            let s = if m.form == Form::Json {
                s.strip_prefix('"')?.strip_suffix('"')?
            } else {
                s
            };
            reftext::b64url_decode_strict(s.strip_prefix("enr:").unwrap_or(s))
        }
    }
}

pub fn apply_fault(data: &[u8], form: Form, fault: &NetFault, others: &[Msg]) -> Vec<u8> {
    let mut d = data.to_vec();
    let len = d.len().max(1);
    let txt = |d: &[u8]| String::from_utf8_lossy(d).to_string();
    // for JSON the text faults work on the string content
    let (open, close) = if form == Form::Json { ("\"", "\"") } else { ("", "") };
    let inner = |d: &[u8]| -> String {
        let s = txt(d);
        if form == Form::Json {
            s.trim_start_matches('"').trim_end_matches('"').to_string()
        } else {
            s
        }
    };
    match fault {
        NetFault::Drop | NetFault::Duplicate => {}
        NetFault::FlipBit(b) => {
            if !d.is_empty() {
                let bit = (*b as usize) % (d.len() * 8);
                d[bit / 8] ^= 1 << (bit % 8);
            }
        }
        NetFault::SetByte(i, v) => {
            if !d.is_empty() {
                let i = (*i as usize) % d.len();
                d[i] = *v;
            }
        }
        NetFault::Insert(i, bytes) => {
            let i = (*i as usize) % (len + 1);
            let i = i.min(d.len());
            for (k, b) in bytes.iter().enumerate() {
                d.insert(i + k, *b);
            }
        }
        NetFault::Delete(i, n) => {
            if !d.is_empty() {
                let i = (*i as usize) % d.len();
                let n = usize::from(*n).max(1).min(d.len() - i);
                d.drain(i..i + n);
            }
        }
        NetFault::Truncate(i) => {
            let i = (*i as usize) % len;
            d.truncate(i);
        }
        NetFault::DupChunk(i, n) => {
            if !d.is_empty() {
                let i = (*i as usize) % d.len();
                let n = usize::from(*n).max(1).min(d.len() - i);
                let chunk = d[i..i + n].to_vec();
                for (k, b) in chunk.iter().enumerate() {
                    d.insert(i + n + k, *b);
                }
            }
        }
        NetFault::Splice(other, at) => {
            if !others.is_empty() {
                let o = &others[usize::from(*other) % others.len()].data;
                let at = (*at as usize) % len;
                let at = at.min(d.len());
                d.truncate(at);
                if at < o.len() {
                    d.extend_from_slice(&o[at..]);
                }
            }
        }
        NetFault::AppendSuffix(s) => d.extend_from_slice(s),
        NetFault::TxtAppend(s) => {
            d = format!("{open}{}{s}{close}", inner(&d)).into_bytes();
        }
        NetFault::TxtInsert(i, c) => {
            let s = inner(&d);
            let mut chars: Vec<char> = s.chars().collect();
            let i = (*i as usize) % (chars.len() + 1);
            chars.insert(i, *c);
            d = format!("{open}{}{close}", chars.into_iter().collect::<String>()).into_bytes();
        }
        NetFault::TxtStdAlphabet => {
            let s = inner(&d);
            let (p, b) = match s.strip_prefix("enr:") {
                Some(b) => ("enr:", b.to_string()),
                None => ("", s.clone()),
            };
            d = format!("{open}{p}{}{close}", b.replace('-', "+").replace('_', "/")).into_bytes();
        }
        NetFault::TxtPad(n) => {
            d = format!("{open}{}{}{close}", inner(&d), "=".repeat(usize::from(*n).clamp(1, 3))).into_bytes();
        }
        NetFault::TxtPrefix(p) => {
            let s = inner(&d);
            let b = s.strip_prefix("enr:").unwrap_or(&s).to_string();
            d = format!("{open}{p}{b}{close}").into_bytes();
        }
        NetFault::TxtTrailingBits(x) => {
            let s = inner(&d);
            if let Some(last) = s.chars().last() {
                let std = b"ABCDEFGHIJKLMNOPQRSTUVWXYZabcdefghijklmnopqrstuvwxyz0123456789-_";
                if let Some(pos) = std.iter().position(|c| *c as char == last) {
                    let body_len = s.strip_prefix("enr:").unwrap_or(&s).len();
                    let free = match body_len % 4 {
                        2 => 4,
                        3 => 2,
                        _ => 0,
                    };
                    if free > 0 {
                        let mask = (1usize << free) - 1;
                        let newpos = (pos & !mask) | ((usize::from(*x) % mask) + 1);
                        let mut t = s[..s.len() - 1].to_string();
                        t.push(std[newpos] as char);
                        d = format!("{open}{t}{close}").into_bytes();
                    }
                }
            }
        }
        NetFault::TxtBytesAfterRecord(extra) => {
            let s = inner(&d);
            let (p, b) = match s.strip_prefix("enr:") {
                Some(b) => ("enr:", b),
                None => ("", s.as_str()),
            };
            if let Some(mut raw) = reftext::b64url_decode_strict(b) {
                raw.extend_from_slice(extra);
                d = format!("{open}{p}{}{close}", reftext::b64url_encode(&raw)).into_bytes();
            }
        }
        NetFault::TxtDoublePrefix => {
            d = format!("{open}enr:{}{close}", inner(&d)).into_bytes();
        }
        NetFault::TxtStripPrefix => {
            let s = inner(&d);
            d = format!("{open}{}{close}", s.strip_prefix("enr:").unwrap_or(&s)).into_bytes();
        }
    }
    d
}

impl World {
    pub fn new(specs: &[NodeSpec], cx: Cx) -> Option<Self> {
        let mut nodes = Vec::new();
        for s in specs {
            let ks: Vec<KeySpec> = s
                .keys
                .iter()
                .enumerate()
                .map(|(i, idx)| KeySpec {
                    // CombinedKey nodes may hold a key of the other scheme in their later slots
                    backend: match (s.backend, i) {
                        (Backend::CombSecp, i) if i >= 2 => Backend::CombEd,
                        (Backend::CombEd, i) if i >= 2 => Backend::CombSecp,
                        (b, _) => b,
                    },
                    idx: *idx,
                })
                .collect();
            nodes.push(make_owner(s.backend, &ks)?);
        }
        let n = nodes.len();
        let mut w = Self {
            nodes,
            msgs: Vec::new(),
            disks: vec![Disk::default(); n],
            crashed: vec![false; n],
            tables: vec![BTreeMap::new(); n],
            partitioned: BTreeSet::new(),
            decs: DecType::available(),
            cx,
        };
        for i in 0..n {
            w.nodes[i].drain_ledger(&mut w.cx); // registers the honest keys
        }
        Some(w)
    }

    fn node(&self, n: u8) -> Option<usize> {
        if self.nodes.is_empty() {
            None
        } else {
            Some(usize::from(n) % self.nodes.len())
        }
    }

    fn msg(&self, m: u16) -> Option<usize> {
        if self.msgs.is_empty() {
            None
        } else {
            Some(usize::from(m) % self.msgs.len())
        }
    }

    fn push_msg(&mut self, data: Vec<u8>, form: Form, how: String, deliver: bool) {
        if self.msgs.len() < 4096 {
            self.msgs.push(Msg {
                data: data.clone(),
                form,
                how: how.clone(),
                dropped: false,
            });
        }
        if deliver {
            self.deliver_data(&data, form, &how);
        }
    }

    fn update_tables(&mut self, outs: &BTreeMap<DecType, crate::recv::DecOut>) {
        for i in 0..self.nodes.len() {
            if self.partitioned.contains(&i) || self.crashed[i] {
                continue;
            }
            let dec = self.nodes[i].backend().dec();
            if let Some(out) = outs.get(&dec) {
                if let Some(v) = &out.view {
                    let e = self.tables[i].entry(v.node_id).or_insert((v.seq, v.encoded.clone()));
                    if v.seq > e.0 {
                        *e = (v.seq, v.encoded.clone());
                    }
                    self.cx.stat("table:updates");
                }
            }
        }
    }

    fn deliver_data(&mut self, data: &[u8], form: Form, how: &str) {
        let decs = self.decs.clone();
        let outs = match form {
            Form::Binary => wire::judge_binary(data, how, &decs, &mut self.cx),
            Form::Text => {
                let s = String::from_utf8_lossy(data).to_string();
                wire::judge_text(&s, false, how, &decs, &mut self.cx)
            }
            Form::Json => {
                let s = String::from_utf8_lossy(data).to_string();
                wire::judge_text(&s, true, how, &decs, &mut self.cx)
            }
        };
        self.update_tables(&outs);
    }

    /// A pristine record of an honest or foreign node must be accepted by every compatible decoder.
    fn expect_accept(&mut self, encoded: &[u8], how: &str) {
        for dec in self.decs.clone() {
            if wire::ref_accepts(encoded, dec.scheme(), dec.judge_lib()) {
                let out = crate::recv::decode_as(dec, encoded, false);
                if !out.panicked && out.view.is_none() {
                    self.cx.push(viol("C02", format!("C02/false-reject/{}", dec.name()),
                        format!("{how} record rejected: {}", hex(encoded))));
                    self.cx.push(viol("C11", format!("C11/honest-record-rejected/{}", dec.name()), hex(encoded)));
                }
                let t = reftext::text_form(encoded);
                for (s, name) in [(t.clone(), "text"), (t[4..].to_string(), "text-noprefix")] {
                    let o = crate::recv::parse_as(dec, &s, false);
                    if !o.panicked && o.view.is_none() {
                        self.cx.push(viol("C12", format!("C12/canonical-text-rejected/{name}/{}", dec.name()), s.clone()));
                    }
                }
                let j = format!("\"{t}\"");
                let o = crate::recv::json_as(dec, &j, false);
                if !o.panicked && o.view.is_none() {
                    self.cx.push(viol("C12", format!("C12/canonical-json-rejected/{}", dec.name()), j));
                }
                self.cx.stat("tail:records-expected-accepted");
            }
        }
    }

    #[allow(clippy::too_many_lines)]
    pub fn apply(&mut self, ev: &Event) {
        self.cx.step += 1;
        self.cx.stat(&format!("event:{}", ev.name()));
        self.cx.log(&format!("EV {}", ev.name()));
        match ev {
            Event::Build { node, slot, calls, reuse } => {
                if let Some(n) = self.node(*node) {
                    if !self.crashed[n] {
                        self.nodes[n].build(calls, *slot, *reuse, &mut self.cx);
                    }
                }
            }
            Event::Op { node, slot, op } => {
                if let Some(n) = self.node(*node) {
                    if !self.crashed[n] {
                        self.nodes[n].op(op, *slot, &mut self.cx);
                    }
                }
            }
            Event::ArmSigner { node, slot, nth } => {
                if let Some(n) = self.node(*node) {
                    self.nodes[n].arm(*slot, *nth);
                    self.cx.stat("fault:signer-armed");
                }
            }
            Event::ArmAbs { node, slot, at } => {
                if let Some(n) = self.node(*node) {
                    self.nodes[n].arm_absolute(*slot, *at);
                    self.cx.stat("fault:signer-armed");
                }
            }
            Event::VarLen { node, slot, len } => {
                if let Some(n) = self.node(*node) {
                    self.nodes[n].set_var_len(*slot, usize::from(*len));
                }
            }
            Event::Publish { node, form, deliver } => {
                if let Some(n) = self.node(*node) {
                    if !self.crashed[n] && !self.nodes[n].ended() {
                        if let Some(enc) = self.nodes[n].encoded() {
                            // the node renders its own forms through the library
                            let data = match form {
                                Form::Binary => Some(enc),
                                Form::Text => self.nodes[n].text().map(String::into_bytes),
                                Form::Json => self.nodes[n].json().map(String::into_bytes),
                            };
                            if let Some(d) = data {
                                self.push_msg(d, *form, "honest".into(), *deliver);
                            }
                        }
                    }
                }
            }
            Event::Foreign { content, form, deliver } => {
                let enc = byz::emit(content, &Rule::None, true);
                // R6: the foreign signer's ledger
                let pairs = content.full_pairs();
                let payload = refrec::signed_payload(content.seq, &pairs);
                let pk = byz::ref_pk(content.kind, content.key_idx);
                if let Verdict::Accept(f) = refrec::parse(&enc, scheme_of(content.kind), Lib::Libsecp) {
                    self.cx.honest_keys.insert(pk.clone());
                    self.cx.ledger_add(&pk, payload, f.sig.clone());
                    self.cx.stat("foreign:valid-records");
                    self.expect_accept(&enc, "foreign");
                } else {
                    self.cx.stat("foreign:template-not-valid");
                }
                self.push_msg(render(&enc, *form), *form, "foreign".into(), *deliver);
            }
            Event::Byz { content, rule, canon_sig, form, deliver } => {
                let enc = byz::emit(content, rule, *canon_sig);
                self.cx.stat(&format!("byz:{}", rule.name()));
                self.push_msg(render(&enc, *form), *form, format!("byz:{}", rule.name()), *deliver);
            }
            Event::Tamper { msg, kind, deliver } => {
                if let Some(m) = self.msg(*msg) {
                    let src = self.msgs[m].clone();
                    if let Some(bin) = binary_of(&src) {
                        let mut fields = None;
                        for sch in [Scheme::Secp, Scheme::Ed, Scheme::Var] {
                            if let Verdict::Accept(f) = refrec::parse(&bin, sch, Lib::Libsecp) {
                                fields = Some(f);
                                break;
                            }
                        }
                        if let Some(f) = fields {
                            if let Some(t) = byz::tamper(&f, kind) {
                                self.cx.stat(&format!("fault:tamper:{}", kind.name()));
                                self.push_msg(render(&t, src.form), src.form, format!("tamper:{}", kind.name()), *deliver);
                            }
                        }
                    }
                }
            }
            Event::Fault { msg, fault, deliver } => {
                if let Some(m) = self.msg(*msg) {
                    match fault {
                        NetFault::Drop => {
                            self.msgs[m].dropped = true;
                            self.cx.stat("fault:net:Drop");
                        }
                        NetFault::Duplicate => {
                            let c = self.msgs[m].clone();
                            self.cx.stat("fault:net:Duplicate");
                            self.push_msg(c.data, c.form, c.how, *deliver);
                        }
                        f => {
                            let src = self.msgs[m].clone();
                            let d = apply_fault(&src.data, src.form, f, &self.msgs);
                            if d != src.data {
                                self.cx.stat(&format!("fault:net:{}", f.name()));
                                self.push_msg(d, src.form, format!("fault:{}", f.name()), *deliver);
                            }
                        }
                    }
                }
            }
            Event::Deliver { msg } => {
                if let Some(m) = self.msg(*msg) {
                    let c = self.msgs[m].clone();
                    if !c.dropped {
                        self.deliver_data(&c.data, c.form, &c.how);
                    }
                }
            }
            Event::EnumFlips { msg } => {
                if let Some(m) = self.msg(*msg) {
                    let c = self.msgs[m].clone();
                    let decs = self.decs.clone();
                    let bits = c.data.len() * 8;
                    self.cx.stat("enum:flip-neighbourhoods");
                    for b in 0..bits {
                        let mut d = c.data.clone();
                        d[b / 8] ^= 1 << (b % 8);
                        self.cx.stat("fault:enum:FlipBit");
                        self.light_deliver(&d, c.form, "enum-flip", &decs);
                    }
                }
            }
            Event::EnumTruncs { msg } => {
                if let Some(m) = self.msg(*msg) {
                    let c = self.msgs[m].clone();
                    let decs = self.decs.clone();
                    self.cx.stat("enum:truncation-neighbourhoods");
                    for n in 0..c.data.len() {
                        self.cx.stat("fault:enum:Truncate");
                        self.light_deliver(&c.data[..n], c.form, "enum-trunc", &decs);
                    }
                }
            }
            Event::EnumEdits { msg, byte } => {
                if let Some(m) = self.msg(*msg) {
                    let c = self.msgs[m].clone();
                    let decs = self.decs.clone();
                    self.cx.stat("enum:edit-neighbourhoods");
                    for i in 0..c.data.len() {
                        let mut d = c.data.clone();
                        d.remove(i);
                        self.cx.stat("fault:enum:DeleteByte");
                        self.light_deliver(&d, c.form, "enum-delete", &decs);
                    }
                    for i in 0..=c.data.len() {
                        let mut d = c.data.clone();
                        d.insert(i, *byte);
                        self.cx.stat("fault:enum:InsertByte");
                        // an insertion after the record is a suffix, which C13 allows: judge it fully
                        if i == c.data.len() && c.form == Form::Binary {
                            self.deliver_data(&d, c.form, "enum-insert");
                        } else {
                            self.light_deliver(&d, c.form, "enum-insert", &decs);
                        }
                    }
                }
            }
            Event::CutSweep { a, b } => {
                if let (Some(ia), Some(ib)) = (self.msg(*a), self.msg(*b)) {
                    let (ma, mb) = (self.msgs[ia].clone(), self.msgs[ib].clone());
                    if ma.form == Form::Binary && mb.form == Form::Binary && !ma.data.is_empty() {
                        if let Ok(it) = rlp::parse_item(&ma.data) {
                            if it.total_len == ma.data.len() {
                                let decs = self.decs.clone();
                                let mut buf = ma.data.clone();
                                buf.extend_from_slice(&mb.data);
                                self.cx.stat("enum:cut-sweeps");
                                for cut in ma.data.len() + 1..=buf.len() {
                                    self.cx.stat("fault:frame:torn-tail");
                                    wire::judge_binary(&buf[..cut], &ma.how, &decs, &mut self.cx);
                                }
                            }
                        }
                    }
                }
            }
            Event::Stream { msgs, suffix, list } => {
                let mut items: Vec<Vec<u8>> = Vec::new();
                for m in msgs.iter().take(8) {
                    if let Some(i) = self.msg(*m) {
                        if self.msgs[i].form == Form::Binary && !self.msgs[i].data.is_empty() {
                            items.push(self.msgs[i].data.clone());
                        }
                    }
                }
                if !items.is_empty() {
                    self.cx.stat(if *list { "fault:frame:rlp-list" } else { "fault:frame:coalesced" });
                    for dec in self.decs.clone() {
                        if *list {
                            wire::judge_list(&items, suffix, dec, &mut self.cx);
                        } else {
                            wire::judge_stream(&items, suffix, dec, &mut self.cx);
                        }
                    }
                }
            }
            Event::SuffixSweep { msg, fill } => {
                if let Some(m) = self.msg(*msg) {
                    let c = self.msgs[m].clone();
                    if c.form == Form::Binary {
                        if let Ok(it) = rlp::parse_item(&c.data) {
                            let l = it.total_len;
                            let item = c.data[..l].to_vec();
                            let mut lens: Vec<usize> = vec![1, 2, 3, 1000];
                            for t in [299usize, 300, 301, 302] {
                                if t > l {
                                    lens.push(t - l);
                                }
                            }
                            let decs = self.decs.clone();
                            self.cx.stat("enum:suffix-sweeps");
                            for n in lens {
                                let mut d = item.clone();
                                // a suffix that looks like another frame start, zeros, or a fill byte
                                d.extend(std::iter::repeat(*fill).take(n));
                                self.cx.stat("fault:frame:suffix");
                                wire::judge_binary(&d, &c.how, &decs, &mut self.cx);
                            }
                        }
                    }
                }
            }
            Event::Noise { data, form } => {
                self.cx.stat("fault:noise");
                // noise stays around as a frame that streams, lists and suffix sweeps can pick up
                self.push_msg(data.clone(), *form, "noise".into(), true);
            }
            Event::Persist { node, form, sync } => {
                if let Some(n) = self.node(*node) {
                    if !self.crashed[n] && !self.nodes[n].ended() {
                        if let Some(enc) = self.nodes[n].encoded() {
                            let bytes = match form {
                                Form::Binary => Some(enc.clone()),
                                Form::Text => self.nodes[n].text().map(String::into_bytes),
                                Form::Json => self.nodes[n].json().map(String::into_bytes),
                            };
                            if let Some(b) = bytes {
                                let img = Image { form: *form, bytes: b, expect: Some(enc) };
                                if *sync {
                                    self.disks[n].durable = Some(img);
                                    self.disks[n].pending = None;
                                } else {
                                    self.disks[n].pending = Some(img);
                                }
                                self.cx.stat("disk:persist");
                            }
                        }
                    }
                }
            }
            Event::Disk { node, fault } => {
                if let Some(n) = self.node(*node) {
                    let d = &mut self.disks[n];
                    match fault {
                        DiskFault::Torn(k) => {
                            if let Some(p) = d.pending.take() {
                                let k = (*k as usize) % (p.bytes.len() + 1);
                                let old = d.durable.as_ref().map(|i| i.bytes.clone()).unwrap_or_default();
                                let mut nb = p.bytes[..k].to_vec();
                                if old.len() > k {
                                    nb.extend_from_slice(&old[k..]);
                                }
                                let intact = nb == p.bytes;
                                d.durable = Some(Image { form: p.form, bytes: nb, expect: if intact { p.expect } else { None } });
                                self.cx.stat("fault:disk:torn-write");
                            }
                        }
                        DiskFault::BitRot(b) => {
                            if let Some(i) = d.durable.as_mut() {
                                if !i.bytes.is_empty() {
                                    let bit = (*b as usize) % (i.bytes.len() * 8);
                                    i.bytes[bit / 8] ^= 1 << (bit % 8);
                                    i.expect = None;
                                    self.cx.stat("fault:disk:bit-rot");
                                }
                            }
                        }
                        DiskFault::LostWrite => {
                            if d.pending.take().is_some() {
                                self.cx.stat("fault:disk:lost-write");
                            }
                        }
                        DiskFault::ShortRead(k) => {
                            if let Some(i) = d.durable.as_mut() {
                                let k = (*k as usize) % (i.bytes.len() + 1);
                                if k < i.bytes.len() {
                                    i.bytes.truncate(k);
                                    i.expect = None;
                                    self.cx.stat("fault:disk:short-read");
                                }
                            }
                        }
                    }
                }
            }
            Event::Crash { node } => {
                if let Some(n) = self.node(*node) {
                    if !self.crashed[n] {
                        self.crashed[n] = true;
                        self.disks[n].pending = None; // un-synced bytes die with the process
                        self.cx.stat("fault:crash");
                    }
                }
            }
            Event::Restart { node } => {
                if let Some(n) = self.node(*node) {
                    self.crashed[n] = false;
                    // a clean restart flushes pending writes first
                    if let Some(p) = self.disks[n].pending.take() {
                        self.disks[n].durable = Some(p);
                    }
                    if let Some(img) = self.disks[n].durable.clone() {
                        self.cx.stat("disk:restart-reload");
                        self.nodes[n].reload(form_code(img.form), &img.bytes, img.expect.as_deref(), &mut self.cx);
                        if img.expect.is_none() {
                            if let Some(v) = self.nodes[n].last_view().cloned() {
                                let dec = self.nodes[n].backend().dec();
                                wire::check_authentic(&v, dec, "restart", &mut self.cx);
                            }
                        }
                    }
                }
            }
            Event::Partition { node } => {
                if let Some(n) = self.node(*node) {
                    self.partitioned.insert(n);
                    self.cx.stat("fault:partition");
                }
            }
            Event::Heal => {
                self.partitioned.clear();
            }
            Event::PoolCheck => {
                for i in 0..self.nodes.len() {
                    self.nodes[i].pool_check(&mut self.cx);
                }
            }
            Event::Tail => {
                // faults have stopped: every live record, published pristine, is accepted by every
                // compatible key type, in all three forms
                self.partitioned.clear();
                for i in 0..self.nodes.len() {
                    if self.crashed[i] || self.nodes[i].ended() {
                        continue;
                    }
                    if let Some(enc) = self.nodes[i].encoded() {
                        self.expect_accept(&enc, "honest");
                        let decs = self.decs.clone();
                        let outs = wire::judge_binary(&enc, "honest", &decs, &mut self.cx);
                        self.update_tables(&outs);
                    }
                }
                // bounded liveness: one fault-free gossip round after the last fault, every live node
                // knows the newest record of every live peer whose scheme it can read
                for i in 0..self.nodes.len() {
                    if self.crashed[i] {
                        continue;
                    }
                    let dec = self.nodes[i].backend().dec();
                    for j in 0..self.nodes.len() {
                        if self.crashed[j] || self.nodes[j].ended() {
                            continue;
                        }
                        let Some(v) = self.nodes[j].last_view().cloned() else { continue };
                        if !wire::ref_accepts(&v.encoded, dec.scheme(), dec.judge_lib()) {
                            continue;
                        }
                        self.cx.stat("tail:table-entries-expected");
                        match self.tables[i].get(&v.node_id) {
                            Some((seq, enc)) if *seq > v.seq || (*seq == v.seq && *enc == v.encoded) => {}
                            Some((seq, _)) if *seq == v.seq => {
                                // another record of the same node at the same sequence number was seen
                                // first (a re-signing): the table keeps the first, which is allowed
                                self.cx.stat("tail:same-seq-other-signature");
                            }
                            _ => self.cx.push(viol("C11", format!("C11/no-progress-after-faults-stopped/{}", dec.name()),
                                format!("node {i} does not hold the newest record (seq {}) of node {j} one fault-free round after the last fault", v.seq))),
                        }
                    }
                }
                for i in 0..self.nodes.len() {
                    self.nodes[i].pool_check(&mut self.cx);
                }
            }
        }
    }

    /// Delivery used inside complete fault neighbourhoods: decode under every key type; only what is
    /// accepted goes through the full set of oracles.
    fn light_deliver(&mut self, data: &[u8], form: Form, how: &str, decs: &[DecType]) {
        let mut any = false;
        for &dec in decs {
            let out = match form {
                Form::Binary => crate::recv::decode_as(dec, data, false),
                Form::Text => crate::recv::parse_as(dec, &String::from_utf8_lossy(data), false),
                Form::Json => crate::recv::json_as(dec, &String::from_utf8_lossy(data), false),
            };
            if out.panicked || out.view.is_some() {
                any = true;
            }
        }
        // panics recorded by the guard are flushed by the full delivery below
        if any {
            self.cx.stat("enum:accepted-or-panicked");
            self.deliver_data(data, form, how);
        } else {
            let p = crate::guard::take_panics();
            debug_assert!(p.is_empty());
            self.cx.stat("enum:rejected");
        }
    }
}

pub fn scheme_of(k: refrec::PkKind) -> Scheme {
    match k {
        refrec::PkKind::Secp => Scheme::Secp,
        refrec::PkKind::Ed => Scheme::Ed,
        refrec::PkKind::Var => Scheme::Var,
    }
}
