//! The operation alphabet (22 public mutators + builder methods), how each is applied to a real
//! `Enr<K>`, and R4 — the sorted-map reference model that predicts effects, returns and error kinds.

use crate::guard::guard;
use crate::refrec::{predicted_size, PkKind};
use crate::refrlp as rlp;
use bytes::Bytes;
use enr::{Enr, EnrKey, Error as EnrError};
use serde::{Deserialize, Serialize};
use std::collections::{BTreeMap, BTreeSet};
use std::net::{IpAddr, Ipv4Addr, Ipv6Addr, SocketAddr};

#[derive(Clone, Debug, PartialEq, Eq, Serialize, Deserialize)]
pub enum Val {
    Bytes(Vec<u8>),
    U64(u64),
    U16(u16),
    Str(String),
    ListStr(Vec<Vec<u8>>),
    Nested(Vec<Vec<Vec<u8>>>),
}

impl Val {
    /// canonical RLP by the reference encoder
    pub fn ref_rlp(&self) -> Vec<u8> {
        match self {
            Val::Bytes(b) => rlp::enc_str(b),
            Val::U64(v) => rlp::enc_uint(*v),
            Val::U16(v) => rlp::enc_uint(u64::from(*v)),
            Val::Str(s) => rlp::enc_str(s.as_bytes()),
            Val::ListStr(l) => {
                let refs: Vec<&[u8]> = l.iter().map(Vec::as_slice).collect();
                rlp::enc_list_of_strs(&refs)
            }
            Val::Nested(ll) => {
                let mut p = Vec::new();
                for l in ll {
                    let refs: Vec<&[u8]> = l.iter().map(Vec::as_slice).collect();
                    p.extend_from_slice(&rlp::enc_list_of_strs(&refs));
                }
                rlp::enc_list(&p)
            }
        }
    }
}

#[derive(Clone, Copy, Debug, PartialEq, Eq, Serialize, Deserialize)]
pub enum IpArg {
    V4([u8; 4]),
    V6([u8; 16]),
}

impl IpArg {
    pub fn to_ip(self) -> IpAddr {
        match self {
            IpArg::V4(a) => IpAddr::V4(Ipv4Addr::from(a)),
            IpArg::V6(a) => IpAddr::V6(Ipv6Addr::from(a)),
        }
    }
    pub fn from_ip(ip: IpAddr) -> Self {
        match ip {
            IpAddr::V4(a) => IpArg::V4(a.octets()),
            IpAddr::V6(a) => IpArg::V6(a.octets()),
        }
    }
    pub fn bytes(&self) -> Vec<u8> {
        match self {
            IpArg::V4(a) => a.to_vec(),
            IpArg::V6(a) => a.to_vec(),
        }
    }
    pub fn is_v4(&self) -> bool {
        matches!(self, IpArg::V4(_))
    }
}

/// Which public key `set_public_key` is given.
#[derive(Clone, Copy, Debug, PartialEq, Eq, Serialize, Deserialize)]
pub enum PkSel {
    /// the public key of the signer passed to the same call
    Signer,
    /// the public key of the node's n-th key (0 = own)
    Slot(u8),
}

#[derive(Clone, Debug, PartialEq, Eq, Serialize, Deserialize)]
pub enum Op {
    SetSeq(u64),
    Insert { key: Vec<u8>, val: Val },
    InsertRaw { key: Vec<u8>, raw: Vec<u8> },
    SetIp(IpArg),
    SetUdp4(u16),
    RemoveUdp4,
    SetUdp6(u16),
    RemoveUdp6,
    SetTcp4(u16),
    RemoveTcp,
    SetTcp6(u16),
    RemoveTcp6,
    SetClientInfo { name: String, version: String, build: Option<String> },
    SetUdpSocket(IpArg, u16),
    RemoveUdpSocket,
    RemoveUdp6Socket,
    SetTcpSocket(IpArg, u16),
    RemoveTcpSocket,
    RemoveTcp6Socket,
    RemoveKey(Vec<u8>),
    RemoveInsert { remove: Vec<Vec<u8>>, insert: Vec<(Vec<u8>, Vec<u8>)> },
    SetPublicKey(PkSel),
}

pub const OP_NAMES: [&str; 22] = [
    "set_seq",
    "insert",
    "insert_raw_rlp",
    "set_ip",
    "set_udp4",
    "remove_udp4",
    "set_udp6",
    "remove_udp6",
    "set_tcp4",
    "remove_tcp",
    "set_tcp6",
    "remove_tcp6",
    "set_client_info",
    "set_udp_socket",
    "remove_udp_socket",
    "remove_udp6_socket",
    "set_tcp_socket",
    "remove_tcp_socket",
    "remove_tcp6_socket",
    "remove_key",
    "remove_insert",
    "set_public_key",
];

impl Op {
    pub fn index(&self) -> usize {
        match self {
            Op::SetSeq(_) => 0,
            Op::Insert { .. } => 1,
            Op::InsertRaw { .. } => 2,
            Op::SetIp(_) => 3,
            Op::SetUdp4(_) => 4,
            Op::RemoveUdp4 => 5,
            Op::SetUdp6(_) => 6,
            Op::RemoveUdp6 => 7,
            Op::SetTcp4(_) => 8,
            Op::RemoveTcp => 9,
            Op::SetTcp6(_) => 10,
            Op::RemoveTcp6 => 11,
            Op::SetClientInfo { .. } => 12,
            Op::SetUdpSocket(..) => 13,
            Op::RemoveUdpSocket => 14,
            Op::RemoveUdp6Socket => 15,
            Op::SetTcpSocket(..) => 16,
            Op::RemoveTcpSocket => 17,
            Op::RemoveTcp6Socket => 18,
            Op::RemoveKey(_) => 19,
            Op::RemoveInsert { .. } => 20,
            Op::SetPublicKey(_) => 21,
        }
    }
    pub fn name(&self) -> &'static str {
        OP_NAMES[self.index()]
    }
}

#[derive(Clone, Debug, PartialEq, Eq, Serialize, Deserialize)]
pub enum BCall {
    Seq(u64),
    AddValue { key: Vec<u8>, val: Val },
    AddValueRlp { key: Vec<u8>, raw: Vec<u8> },
    Ip(IpArg),
    Ip4([u8; 4]),
    Ip6([u8; 16]),
    Tcp4(u16),
    Tcp6(u16),
    Udp4(u16),
    Udp6(u16),
    ClientInfo { name: String, version: String, build: Option<String> },
}

#[derive(Clone, Debug, PartialEq, Eq)]
pub enum Ret {
    Unit,
    PrevRaw(Option<Vec<u8>>),
    PrevIp(Option<IpArg>),
    PrevPort(Option<u16>),
    RemIns(Vec<Option<Vec<u8>>>, Vec<Option<Vec<u8>>>),
}

#[derive(Clone, Copy, Debug, PartialEq, Eq, PartialOrd, Ord, Hash)]
pub enum ErrKind {
    ExceedsMaxSize,
    SequenceNumberTooHigh,
    SigningError,
    UnsupportedIdentityScheme,
    InvalidRlpData,
}

impl ErrKind {
    pub fn of(e: &EnrError) -> Self {
        match e {
            EnrError::ExceedsMaxSize => ErrKind::ExceedsMaxSize,
            EnrError::SequenceNumberTooHigh => ErrKind::SequenceNumberTooHigh,
            EnrError::SigningError => ErrKind::SigningError,
            EnrError::UnsupportedIdentityScheme => ErrKind::UnsupportedIdentityScheme,
            EnrError::InvalidRlpData(_) => ErrKind::InvalidRlpData,
        }
    }
    pub fn name(self) -> &'static str {
        match self {
            ErrKind::ExceedsMaxSize => "ExceedsMaxSize",
            ErrKind::SequenceNumberTooHigh => "SequenceNumberTooHigh",
            ErrKind::SigningError => "SigningError",
            ErrKind::UnsupportedIdentityScheme => "UnsupportedIdentityScheme",
            ErrKind::InvalidRlpData => "InvalidRlpData",
        }
    }
}

#[derive(Clone, Debug, PartialEq, Eq)]
pub enum Outcome {
    Ok(Ret),
    Err(ErrKind),
    Panic,
}

impl Outcome {
    pub fn tag(&self) -> &'static str {
        match self {
            Outcome::Ok(_) => "ok",
            Outcome::Err(k) => k.name(),
            Outcome::Panic => "panic",
        }
    }
}

fn ok_or<T>(r: Result<T, EnrError>, f: impl FnOnce(T) -> Ret) -> Outcome {
    match r {
        Ok(v) => Outcome::Ok(f(v)),
        Err(e) => Outcome::Err(ErrKind::of(&e)),
    }
}

fn insert_val<K: EnrKey>(
    e: &mut Enr<K>,
    key: &[u8],
    val: &Val,
    k: &K,
) -> Result<Option<Bytes>, EnrError> {
    match val {
        Val::Bytes(b) => e.insert(key, &b.as_slice(), k),
        Val::U64(v) => e.insert(key, v, k),
        Val::U16(v) => e.insert(key, v, k),
        Val::Str(s) => e.insert(key, s, k),
        Val::ListStr(l) => {
            let l: Vec<Bytes> = l.iter().map(|b| Bytes::from(b.clone())).collect();
            e.insert(key, &l, k)
        }
        Val::Nested(ll) => {
            let ll: Vec<Vec<Bytes>> = ll
                .iter()
                .map(|l| l.iter().map(|b| Bytes::from(b.clone())).collect())
                .collect();
            e.insert(key, &ll, k)
        }
    }
}

/// Apply one mutator to the real record. `pk_for` resolves `PkSel`.
pub fn apply_real<K: EnrKey>(
    e: &mut Enr<K>,
    op: &Op,
    signer: &K,
    pk_for: &dyn Fn(PkSel) -> K::PublicKey,
) -> Outcome {
    let r = guard(op.name(), || match op {
        Op::SetSeq(v) => ok_or(e.set_seq(*v, signer), |()| Ret::Unit),
        Op::Insert { key, val } => ok_or(insert_val(e, key, val, signer), |p| {
            Ret::PrevRaw(p.map(|b| b.to_vec()))
        }),
        Op::InsertRaw { key, raw } => ok_or(
            e.insert_raw_rlp(key, Bytes::from(raw.clone()), signer),
            |p| Ret::PrevRaw(p.map(|b| b.to_vec())),
        ),
        Op::SetIp(ip) => ok_or(e.set_ip(ip.to_ip(), signer), |p| {
            Ret::PrevIp(p.map(IpArg::from_ip))
        }),
        Op::SetUdp4(p) => ok_or(e.set_udp4(*p, signer), Ret::PrevPort),
        Op::RemoveUdp4 => ok_or(e.remove_udp4(signer), |()| Ret::Unit),
        Op::SetUdp6(p) => ok_or(e.set_udp6(*p, signer), Ret::PrevPort),
        Op::RemoveUdp6 => ok_or(e.remove_udp6(signer), |()| Ret::Unit),
        Op::SetTcp4(p) => ok_or(e.set_tcp4(*p, signer), Ret::PrevPort),
        Op::RemoveTcp => ok_or(e.remove_tcp(signer), |()| Ret::Unit),
        Op::SetTcp6(p) => ok_or(e.set_tcp6(*p, signer), Ret::PrevPort),
        Op::RemoveTcp6 => ok_or(e.remove_tcp6(signer), |()| Ret::Unit),
        Op::SetClientInfo {
            name,
            version,
            build,
        } => ok_or(
            e.set_client_info(name.clone(), version.clone(), build.clone(), signer),
            |()| Ret::Unit,
        ),
        Op::SetUdpSocket(ip, port) => ok_or(
            e.set_udp_socket(SocketAddr::new(ip.to_ip(), *port), signer),
            |()| Ret::Unit,
        ),
        Op::RemoveUdpSocket => ok_or(e.remove_udp_socket(signer), |()| Ret::Unit),
        Op::RemoveUdp6Socket => ok_or(e.remove_udp6_socket(signer), |()| Ret::Unit),
        Op::SetTcpSocket(ip, port) => ok_or(
            e.set_tcp_socket(SocketAddr::new(ip.to_ip(), *port), signer),
            |()| Ret::Unit,
        ),
        Op::RemoveTcpSocket => ok_or(e.remove_tcp_socket(signer), |()| Ret::Unit),
        Op::RemoveTcp6Socket => ok_or(e.remove_tcp6_socket(signer), |()| Ret::Unit),
        Op::RemoveKey(k) => ok_or(e.remove_key(k, signer), |()| Ret::Unit),
        Op::RemoveInsert { remove, insert } => ok_or(
            e.remove_insert(
                remove.iter(),
                insert.iter().map(|(k, v)| (k.clone(), v.as_slice())),
                signer,
            ),
            |(r, i)| {
                Ret::RemIns(
                    r.into_iter().map(|o| o.map(|b| b.to_vec())).collect(),
                    i.into_iter().map(|o| o.map(|b| b.to_vec())).collect(),
                )
            },
        ),
        Op::SetPublicKey(sel) => {
            let pk = pk_for(*sel);
            ok_or(e.set_public_key(&pk, signer), |()| Ret::Unit)
        }
    });
    r.unwrap_or(Outcome::Panic)
}

/// Run the real builder.
pub fn build_real<K: EnrKey>(
    calls: &[BCall],
    signer: &K,
    first: Option<&K>,
) -> Result<Result<Enr<K>, ErrKind>, ()> {
    guard("Builder::build", || {
        // no builder calls at all: the shortcut constructor
        if calls.is_empty() && first.is_none() {
            return Enr::<K>::empty(signer).map_err(|e| ErrKind::of(&e));
        }
        let mut b = Enr::<K>::builder();
        for c in calls {
            match c {
                BCall::Seq(s) => {
                    b.seq(*s);
                }
                BCall::AddValue { key, val } => match val {
                    Val::Bytes(x) => {
                        b.add_value(key, &x.as_slice());
                    }
                    Val::U64(x) => {
                        b.add_value(key, x);
                    }
                    Val::U16(x) => {
                        b.add_value(key, x);
                    }
                    Val::Str(x) => {
                        b.add_value(key, x);
                    }
                    Val::ListStr(l) => {
                        let l: Vec<Bytes> = l.iter().map(|x| Bytes::from(x.clone())).collect();
                        b.add_value(key, &l);
                    }
                    Val::Nested(ll) => {
                        let ll: Vec<Vec<Bytes>> = ll
                            .iter()
                            .map(|l| l.iter().map(|x| Bytes::from(x.clone())).collect())
                            .collect();
                        b.add_value(key, &ll);
                    }
                },
                BCall::AddValueRlp { key, raw } => {
                    b.add_value_rlp(key, Bytes::from(raw.clone()));
                }
                BCall::Ip(ip) => {
                    b.ip(ip.to_ip());
                }
                BCall::Ip4(a) => {
                    b.ip4(Ipv4Addr::from(*a));
                }
                BCall::Ip6(a) => {
                    b.ip6(Ipv6Addr::from(*a));
                }
                BCall::Tcp4(p) => {
                    b.tcp4(*p);
                }
                BCall::Tcp6(p) => {
                    b.tcp6(*p);
                }
                BCall::Udp4(p) => {
                    b.udp4(*p);
                }
                BCall::Udp6(p) => {
                    b.udp6(*p);
                }
                BCall::ClientInfo {
                    name,
                    version,
                    build,
                } => {
                    b.client_info(name.clone(), version.clone(), build.clone());
                }
            }
        }
        // a builder may be used more than once: build with another key first, keep the builder
        if let Some(f) = first {
            let _ = b.build(f);
        }
        b.build(signer).map_err(|e| ErrKind::of(&e))
    })
    .ok_or(())
}

// ------------------------------------------------------------------------------------------------
// R4: the model

#[derive(Clone, Debug, PartialEq, Eq)]
pub struct Model {
    pub seq: u64,
    pub pairs: BTreeMap<Vec<u8>, Vec<u8>>,
    pub pk_kind: PkKind,
    pub pk: Vec<u8>,
}

/// The signer of a call, as the model sees it.
#[derive(Clone, Debug)]
pub struct SignerInfo {
    pub pk_kind: PkKind,
    pub pk: Vec<u8>,
    /// signature length the signer will produce (64 for the built-in schemes)
    pub sig_len: usize,
    pub will_fail: bool,
}

#[derive(Clone, Debug)]
pub struct Pred {
    pub next: Model,
    pub ret: Ret,
    pub causes: BTreeSet<ErrKind>,
    /// false: the property text does not pin this call down; executed, not judged for C08
    pub judged: bool,
    /// the call may be refused (not judged then), but if it returns Ok the pairs and the return
    /// value are pinned down: a foreign value written under the signer's own key entry is
    /// overwritten by the signer's key; a list value is stored verbatim
    pub judged_ok_only: bool,
    pub why_unjudged: &'static str,
    /// predicted encoded size of `next` with the signer's signature length
    pub size: usize,
}

pub fn is_port_key(k: &[u8]) -> bool {
    matches!(k, b"tcp" | b"tcp6" | b"udp" | b"udp6")
}

pub fn is_pk_entry(k: &[u8]) -> bool {
    k == b"secp256k1" || k == b"ed25519" || k == crate::keys::VAR_ENR_KEY
}

/// exactly one well-framed canonical item (shallow)
pub fn one_item(raw: &[u8]) -> bool {
    matches!(rlp::parse_item(raw), Ok(it) if it.total_len == raw.len())
}

fn str_of(raw: &[u8]) -> Option<&[u8]> {
    match rlp::parse_item(raw) {
        Ok(it) if it.total_len == raw.len() && !it.list => Some(it.payload),
        _ => None,
    }
}

pub fn port_of(raw: &[u8]) -> Option<u16> {
    str_of(raw)
        .and_then(|p| rlp::uint_from_payload(p, 2))
        .map(|v| v as u16)
}

pub fn ip4_of(raw: &[u8]) -> Option<[u8; 4]> {
    str_of(raw).and_then(|p| <[u8; 4]>::try_from(p).ok())
}

pub fn ip6_of(raw: &[u8]) -> Option<[u8; 16]> {
    str_of(raw).and_then(|p| <[u8; 16]>::try_from(p).ok())
}

/// Error kinds a value written under `key` justifies; empty = conforming.
pub fn value_causes(key: &[u8], raw: &[u8]) -> BTreeSet<ErrKind> {
    let mut c = BTreeSet::new();
    if !one_item(raw) {
        c.insert(ErrKind::InvalidRlpData);
        if key == b"id" {
            c.insert(ErrKind::UnsupportedIdentityScheme);
        }
        return c;
    }
    match key {
        b"id" => {
            if str_of(raw) != Some(b"v4".as_slice()) {
                c.insert(ErrKind::UnsupportedIdentityScheme);
                c.insert(ErrKind::InvalidRlpData);
            }
        }
        b"ip" => {
            if ip4_of(raw).is_none() {
                c.insert(ErrKind::InvalidRlpData);
            }
        }
        b"ip6" => {
            if ip6_of(raw).is_none() {
                c.insert(ErrKind::InvalidRlpData);
            }
        }
        k if is_port_key(k) => {
            if port_of(raw).is_none() {
                c.insert(ErrKind::InvalidRlpData);
            }
        }
        _ => {}
    }
    c
}

impl Model {
    pub fn pairs_vec(&self) -> Vec<(Vec<u8>, Vec<u8>)> {
        self.pairs
            .iter()
            .map(|(k, v)| (k.clone(), v.clone()))
            .collect()
    }

    pub fn size_with(&self, sig_len: usize) -> usize {
        predicted_size(sig_len, self.seq, &self.pairs_vec())
    }

    /// Predict one mutator call.
    #[allow(clippy::too_many_lines)]
    pub fn predict(&self, op: &Op, signer: &SignerInfo, pk_sel: Option<(PkKind, Vec<u8>)>) -> Pred {
        let mut next = self.clone();
        let mut causes: BTreeSet<ErrKind> = BTreeSet::new();
        let mut judged = true;
        let ok_only = std::cell::Cell::new(false);
        let mut why = "";
        let mut ret = Ret::Unit;
        let signer_entry = signer.pk_kind.entry_key().to_vec();
        let signer_entry_raw = rlp::enc_str(&signer.pk);

        // a write to a public-key entry is only pinned down when it writes the signer's own key
        let write = |next: &mut Model,
                         causes: &mut BTreeSet<ErrKind>,
                         judged: &mut bool,
                         why: &mut &'static str,
                         key: &[u8],
                         raw: Vec<u8>| {
            if is_pk_entry(key) {
                if key == signer_entry.as_slice() && raw == signer_entry_raw {
                    // the signer's own key: fully pinned down
                } else if key == signer_entry.as_slice() {
                    // overwritten by the signer's key if the call succeeds
                    ok_only.set(true);
                    *why = "signer's key entry written with another value";
                } else {
                    *judged = false;
                    *why = "public-key entry of another scheme written";
                }
            } else {
                let vc = value_causes(key, &raw);
                if vc.is_empty() {
                    if let Ok(it) = rlp::parse_item(&raw) {
                        if it.list && !rlp::deep_canonical(&raw) {
                            ok_only.set(true);
                            *why = "inner bytes of a list value";
                        }
                    }
                }
                causes.extend(vc);
            }
            next.pairs.insert(key.to_vec(), raw);
        };

        match op {
            Op::SetSeq(v) => {
                next.seq = *v;
            }
            Op::Insert { key, val } => {
                ret = Ret::PrevRaw(self.pairs.get(key).cloned());
                write(&mut next, &mut causes, &mut judged, &mut why, key, val.ref_rlp());
            }
            Op::InsertRaw { key, raw } => {
                ret = Ret::PrevRaw(self.pairs.get(key).cloned());
                write(&mut next, &mut causes, &mut judged, &mut why, key, raw.clone());
            }
            Op::SetIp(ip) => {
                let (k, prev): (&[u8], Option<IpArg>) = match ip {
                    IpArg::V4(_) => (
                        b"ip",
                        self.pairs.get(b"ip".as_slice()).and_then(|r| ip4_of(r)).map(IpArg::V4),
                    ),
                    IpArg::V6(_) => (
                        b"ip6",
                        self.pairs.get(b"ip6".as_slice()).and_then(|r| ip6_of(r)).map(IpArg::V6),
                    ),
                };
                ret = Ret::PrevIp(prev);
                write(&mut next, &mut causes, &mut judged, &mut why, k, rlp::enc_str(&ip.bytes()));
            }
            Op::SetUdp4(p) | Op::SetUdp6(p) | Op::SetTcp4(p) | Op::SetTcp6(p) => {
                let k: &[u8] = match op {
                    Op::SetUdp4(_) => b"udp",
                    Op::SetUdp6(_) => b"udp6",
                    Op::SetTcp4(_) => b"tcp",
                    _ => b"tcp6",
                };
                ret = Ret::PrevPort(self.pairs.get(k).and_then(|r| port_of(r)));
                write(&mut next, &mut causes, &mut judged, &mut why, k, rlp::enc_uint(u64::from(*p)));
            }
            Op::RemoveUdp4 => {
                next.pairs.remove(b"udp".as_slice());
            }
            Op::RemoveUdp6 => {
                next.pairs.remove(b"udp6".as_slice());
            }
            Op::RemoveTcp => {
                next.pairs.remove(b"tcp".as_slice());
            }
            Op::RemoveTcp6 => {
                next.pairs.remove(b"tcp6".as_slice());
            }
            Op::SetClientInfo {
                name,
                version,
                build,
            } => {
                let mut items: Vec<&[u8]> = vec![name.as_bytes(), version.as_bytes()];
                if let Some(b) = build {
                    items.push(b.as_bytes());
                }
                write(&mut next, &mut causes, &mut judged, &mut why, b"client", rlp::enc_list_of_strs(&items));
            }
            Op::SetUdpSocket(ip, port) | Op::SetTcpSocket(ip, port) => {
                let tcp = matches!(op, Op::SetTcpSocket(..));
                let (ipk, pk): (&[u8], &[u8]) = match (ip.is_v4(), tcp) {
                    (true, true) => (b"ip", b"tcp"),
                    (true, false) => (b"ip", b"udp"),
                    (false, true) => (b"ip6", b"tcp6"),
                    (false, false) => (b"ip6", b"udp6"),
                };
                write(&mut next, &mut causes, &mut judged, &mut why, ipk, rlp::enc_str(&ip.bytes()));
                write(&mut next, &mut causes, &mut judged, &mut why, pk, rlp::enc_uint(u64::from(*port)));
            }
            Op::RemoveUdpSocket => {
                next.pairs.remove(b"ip".as_slice());
                next.pairs.remove(b"udp".as_slice());
            }
            Op::RemoveUdp6Socket => {
                next.pairs.remove(b"ip6".as_slice());
                next.pairs.remove(b"udp6".as_slice());
            }
            Op::RemoveTcpSocket => {
                next.pairs.remove(b"ip".as_slice());
                next.pairs.remove(b"tcp".as_slice());
            }
            Op::RemoveTcp6Socket => {
                next.pairs.remove(b"ip6".as_slice());
                next.pairs.remove(b"tcp6".as_slice());
            }
            Op::RemoveKey(k) => {
                next.pairs.remove(k);
            }
            Op::RemoveInsert { remove, insert } => {
                // "Removes key/value mappings and adds or overwrites key/value mappings": the plain
                // sequential reading — every removal in argument order, then every insert in
                // argument order — also settles repeated and overlapping keys.
                let mut removed = Vec::new();
                for k in remove {
                    removed.push(next.pairs.remove(k));
                }
                let mut inserted = Vec::new();
                for (k, v) in insert {
                    inserted.push(next.pairs.get(k).cloned());
                    write(&mut next, &mut causes, &mut judged, &mut why, k, rlp::enc_str(v));
                }
                ret = Ret::RemIns(removed, inserted);
            }
            Op::SetPublicKey(_) => {
                // the given key is written under its own entry name, then the signer's key is
                let (gkind, given) = pk_sel.unwrap_or((signer.pk_kind, Vec::new()));
                if given != signer.pk || gkind != signer.pk_kind {
                    write(&mut next, &mut causes, &mut judged, &mut why, gkind.entry_key(), rlp::enc_str(&given));
                }
            }
        }

        // every update leaves the signer's key in the record
        if signer.pk_kind != self.pk_kind {
            judged = false;
            why = "update with a key of another scheme";
        }
        next.pairs.insert(signer_entry, signer_entry_raw);
        next.pk_kind = signer.pk_kind;
        next.pk = signer.pk.clone();

        if !matches!(op, Op::SetSeq(_)) {
            match self.seq.checked_add(1) {
                Some(s) => next.seq = s,
                None => {
                    causes.insert(ErrKind::SequenceNumberTooHigh);
                }
            }
        }
        // id must survive as v4
        match next.pairs.get(b"id".as_slice()) {
            Some(r) if str_of(r) == Some(b"v4".as_slice()) => {}
            _ => {
                causes.insert(ErrKind::UnsupportedIdentityScheme);
            }
        }
        let size = next.size_with(signer.sig_len);
        if size > crate::refrec::MAX {
            causes.insert(ErrKind::ExceedsMaxSize);
        }
        if signer.will_fail {
            causes.insert(ErrKind::SigningError);
        }
        Pred {
            next,
            ret,
            causes,
            judged,
            judged_ok_only: ok_only.get(),
            why_unjudged: why,
            size,
        }
    }
}

#[derive(Clone, Debug)]
pub struct BuildPred {
    pub next: Model,
    pub causes: BTreeSet<ErrKind>,
    pub judged: bool,
    /// the builder was handed an `id` / own key entry that it overwrites: it may refuse the call,
    /// but if it returns Ok the pairs must be the model's
    pub judged_ok_only: bool,
    pub why_unjudged: &'static str,
    pub size: usize,
    /// result within 8 bytes of the limit: the builder may refuse or not
    pub slack_zone: bool,
}

pub fn predict_build(calls: &[BCall], signer: &SignerInfo) -> BuildPred {
    let mut seq = 1u64;
    let mut pairs: BTreeMap<Vec<u8>, Vec<u8>> = BTreeMap::new();
    for c in calls {
        match c {
            BCall::Seq(s) => seq = *s,
            BCall::AddValue { key, val } => {
                pairs.insert(key.clone(), val.ref_rlp());
            }
            BCall::AddValueRlp { key, raw } => {
                pairs.insert(key.clone(), raw.clone());
            }
            BCall::Ip(ip) => {
                let k: &[u8] = if ip.is_v4() { b"ip" } else { b"ip6" };
                pairs.insert(k.to_vec(), rlp::enc_str(&ip.bytes()));
            }
            BCall::Ip4(a) => {
                pairs.insert(b"ip".to_vec(), rlp::enc_str(a));
            }
            BCall::Ip6(a) => {
                pairs.insert(b"ip6".to_vec(), rlp::enc_str(a));
            }
            BCall::Tcp4(p) => {
                pairs.insert(b"tcp".to_vec(), rlp::enc_uint(u64::from(*p)));
            }
            BCall::Tcp6(p) => {
                pairs.insert(b"tcp6".to_vec(), rlp::enc_uint(u64::from(*p)));
            }
            BCall::Udp4(p) => {
                pairs.insert(b"udp".to_vec(), rlp::enc_uint(u64::from(*p)));
            }
            BCall::Udp6(p) => {
                pairs.insert(b"udp6".to_vec(), rlp::enc_uint(u64::from(*p)));
            }
            BCall::ClientInfo {
                name,
                version,
                build,
            } => {
                let mut items: Vec<&[u8]> = vec![name.as_bytes(), version.as_bytes()];
                if let Some(b) = build {
                    items.push(b.as_bytes());
                }
                pairs.insert(b"client".to_vec(), rlp::enc_list_of_strs(&items));
            }
        }
    }
    let mut causes = BTreeSet::new();
    let mut judged = true;
    let mut judged_ok_only = false;
    let mut why = "";
    let signer_entry = signer.pk_kind.entry_key().to_vec();
    for (k, v) in &pairs {
        if k == b"id" || k.as_slice() == signer_entry.as_slice() {
            // overwritten by the builder; whether a bad value is refused first is not pinned down,
            // but an Ok result must carry id=v4 and the signer's key
            if !(value_causes(k, v).is_empty()) || is_pk_entry(k) {
                judged_ok_only = true;
                why = "builder given an id / own-scheme key entry that it overwrites";
            }
            continue;
        }
        if is_pk_entry(k) {
            judged = false;
            why = "builder given a public-key entry of another scheme";
            continue;
        }
        let vc = value_causes(k, v);
        if vc.is_empty() {
            if let Ok(it) = rlp::parse_item(v) {
                if it.list && !rlp::deep_canonical(v) {
                    judged = false;
                    why = "inner bytes of a list value";
                }
            }
        }
        causes.extend(vc);
    }
    pairs.insert(b"id".to_vec(), rlp::enc_str(b"v4"));
    pairs.insert(signer_entry, rlp::enc_str(&signer.pk));
    let next = Model {
        seq,
        pairs,
        pk_kind: signer.pk_kind,
        pk: signer.pk.clone(),
    };
    let size = next.size_with(signer.sig_len);
    let mut slack_zone = false;
    if size > crate::refrec::MAX {
        causes.insert(ErrKind::ExceedsMaxSize);
    } else if size > crate::refrec::MAX - 8 {
        slack_zone = true;
    }
    if signer.will_fail {
        causes.insert(ErrKind::SigningError);
    }
    BuildPred {
        next,
        causes,
        judged,
        judged_ok_only,
        why_unjudged: why,
        size,
        slack_zone,
    }
}
