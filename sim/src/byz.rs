//! Foreign-implementation and Byzantine peers: records made with the reference encoder/signer only.
//! `emit` produces a correctly signed record that deviates from the wire rules in exactly one way;
//! `tamper` produces field-level attacks on somebody else's record.

use crate::keys::pool_secret;
use crate::refcrypto::{self as rc, Lib};
use crate::refrec::{self, Fields, PkKind};
use crate::refrlp as rlp;
use serde::{Deserialize, Serialize};
use std::collections::BTreeMap;

pub type Pairs = Vec<(Vec<u8>, Vec<u8>)>;

#[derive(Clone, Debug, PartialEq, Eq, Serialize, Deserialize)]
pub struct Content {
    pub kind: PkKind,
    pub key_idx: u32,
    pub seq: u64,
    /// user pairs; `id` and the public-key entry are added by `full_pairs`
    pub pairs: Pairs,
}

pub fn ref_pk(kind: PkKind, idx: u32) -> Vec<u8> {
    let sk = pool_secret(idx);
    match kind {
        PkKind::Secp => rc::secp_pub_from_secret(&sk, Lib::Libsecp).unwrap().to_vec(),
        PkKind::Ed => rc::ed_pub_from_secret(&sk).to_vec(),
        PkKind::Var => crate::keys::var_pk_from_secret(&sk).to_vec(),
    }
}

pub fn ref_sign(kind: PkKind, idx: u32, payload: &[u8]) -> Vec<u8> {
    let sk = pool_secret(idx);
    match kind {
        PkKind::Secp => rc::secp_sign(&sk, &rc::keccak256(payload), Lib::Libsecp).unwrap(),
        PkKind::Ed => rc::ed_sign(&sk, payload),
        PkKind::Var => crate::keys::var_sign(&ref_pk(kind, idx), payload, crate::keys::VAR_DEFAULT_SIG_LEN),
    }
}

impl Content {
    pub fn full_pairs(&self) -> Pairs {
        let mut m: BTreeMap<Vec<u8>, Vec<u8>> = self.pairs.iter().cloned().collect();
        m.insert(b"id".to_vec(), rlp::enc_str(b"v4"));
        m.insert(
            self.kind.entry_key().to_vec(),
            rlp::enc_str(&ref_pk(self.kind, self.key_idx)),
        );
        m.into_iter().collect()
    }
}

#[derive(Clone, Copy, Debug, PartialEq, Eq, Serialize, Deserialize)]
pub enum Pos {
    Outer,
    Sig,
    Seq,
    Key(u8),
    Val(u8),
}

#[derive(Clone, Debug, PartialEq, Eq, Serialize, Deserialize)]
pub enum Rule {
    None,
    SwapPairs(u8),
    DupPair(u8),
    DupKeyOtherValue(u8),
    DropLastValue,
    IdMissing,
    IdOther,
    IdList,
    PkMissing,
    PkLen(u8),
    PkOffCurve,
    PkXGeP,
    PkTag(u8),
    PkList,
    IpLen(u8),
    IpList,
    Ip6Len(u8),
    PortLeadingZero(u8),
    Port3Bytes(u8),
    PortZeroByte(u8),
    PortList(u8),
    SeqLeadingZero,
    Seq9Bytes,
    SeqList,
    SeqZeroByte,
    SigList,
    SigLen(u8),
    NonCanon(Pos),
    OuterString,
    OuterLenDelta(i8),
    ItemOverrun,
    ExtraItem,
    EmptyList,
    OnlySig,
    OnlySigSeq,
    PadTo(u16),
    /// carries a valid key of the other scheme too
    BothKeys(u32),
    /// carries only the other scheme's key entry name with this key's bytes
    OtherSchemeEntryOnly,
    /// regions the property leaves open (counted, never judged): a 65-byte uncompressed key,
    /// non-canonical bytes inside a list value under an unknown key
    PkUncompressed,
    InnerNonCanonList,
    /// ed25519 only: the neutral element as public key with the signature (R = neutral, s = 0),
    /// which non-strict verification accepts for every message. Outside C01/C02 (weak key), but
    /// the ed25519 key type and CombinedKey must still agree on it (C11).
    EdSmallOrder(u8),
    /// 64-byte untagged x || y under the secp256k1 entry (neither compressed nor SEC1)
    PkRawXY,
    /// the signer grinds the sequence number until the signature starts with a zero byte and sends
    /// the remaining 63 bytes: a verifier that left-pads short signatures would accept it
    SigLeadingZeroStripped,
    /// an unusable byte string (empty / 3 bytes / 33 bytes off the curve / 31 bytes) under the OTHER
    /// scheme's key entry: the record is still a valid record of its own scheme
    JunkOtherKey(u8),
    /// a genuine signature over the wrong pre-image: ed25519 over keccak256(content) instead of the
    /// content, secp256k1 over keccak256(keccak256(content))
    SigOverDigest,
}

impl Rule {
    pub fn name(&self) -> String {
        let s = format!("{self:?}");
        s.split(['(', '{', ' ']).next().unwrap_or("?").to_string()
    }
}

const PORT_KEYS: [&[u8]; 4] = [b"tcp", b"tcp6", b"udp", b"udp6"];

fn non_canon_str(b: &[u8]) -> Vec<u8> {
    if b.len() == 1 && b[0] < 0x80 {
        vec![0x81, b[0]]
    } else {
        rlp::enc_str_long_form(b)
    }
}

fn set(m: &mut BTreeMap<Vec<u8>, Vec<u8>>, k: &[u8], v: Vec<u8>) {
    m.insert(k.to_vec(), v);
}

fn p_bytes() -> [u8; 32] {
    let mut p = [0xffu8; 32];
    p[27] = 0xfe;
    p[28] = 0xff;
    p[29] = 0xff;
    p[30] = 0xfc;
    p[31] = 0x2f;
    p
}

/// Produce the wire bytes. `canon_sig`: sign what a lenient decoder that canonicalises values
/// would reconstruct (true) or the raw values as sent (false).
#[allow(clippy::too_many_lines)]
pub fn emit(c: &Content, rule: &Rule, canon_sig: bool) -> Vec<u8> {
    let pk_entry = c.kind.entry_key().to_vec();
    // semantic content, as a map
    let mut sem: BTreeMap<Vec<u8>, Vec<u8>> = c.full_pairs().into_iter().collect();
    // wire overrides per key (value bytes as sent when they differ from what is signed)
    let mut wire_val: BTreeMap<Vec<u8>, Vec<u8>> = BTreeMap::new();
    let mut seq_wire = rlp::enc_uint(c.seq);
    let mut seq_signed = c.seq;

    match rule {
        Rule::IdMissing => {
            sem.remove(b"id".as_slice());
        }
        Rule::IdOther => set(&mut sem, b"id", rlp::enc_str(b"v5")),
        Rule::IdList => set(&mut sem, b"id", rlp::enc_list(&rlp::enc_str(b"v4"))),
        Rule::PkMissing => {
            sem.remove(&pk_entry);
        }
        Rule::PkLen(n) => {
            let mut pk = ref_pk(c.kind, c.key_idx);
            pk.resize(usize::from(*n), 0x11);
            sem.insert(pk_entry.clone(), rlp::enc_str(&pk));
        }
        Rule::PkOffCurve => {
            let mut pk = ref_pk(c.kind, c.key_idx);
            if c.kind == PkKind::Secp {
                // walk x until it is not the abscissa of a curve point
                for _ in 0..64 {
                    let l = pk.len() - 1;
                    pk[l] = pk[l].wrapping_add(1);
                    if rc::secp_uncompressed(&pk, Lib::Libsecp).is_none() {
                        break;
                    }
                }
            } else {
                // a y that does not decompress
                for _ in 0..64 {
                    pk[0] = pk[0].wrapping_add(1);
                    if rc::ed_pk_class(&pk) == rc::EdPkClass::Invalid {
                        break;
                    }
                }
            }
            sem.insert(pk_entry.clone(), rlp::enc_str(&pk));
        }
        Rule::PkXGeP => {
            let mut pk = ref_pk(c.kind, c.key_idx);
            if c.kind == PkKind::Secp {
                pk[1..].copy_from_slice(&p_bytes());
            }
            sem.insert(pk_entry.clone(), rlp::enc_str(&pk));
        }
        Rule::PkTag(t) => {
            let mut pk = ref_pk(c.kind, c.key_idx);
            if c.kind == PkKind::Secp {
                pk[0] = *t;
            }
            sem.insert(pk_entry.clone(), rlp::enc_str(&pk));
        }
        Rule::PkList => {
            let pk = ref_pk(c.kind, c.key_idx);
            sem.insert(pk_entry.clone(), rlp::enc_list(&rlp::enc_str(&pk)));
        }
        Rule::IpLen(n) => set(&mut sem, b"ip", rlp::enc_str(&vec![10u8; usize::from(*n)])),
        Rule::IpList => set(&mut sem, b"ip", rlp::enc_list(&rlp::enc_str(&[10, 0, 0, 1]))),
        Rule::Ip6Len(n) => set(&mut sem, b"ip6", rlp::enc_str(&vec![0x20u8; usize::from(*n)])),
        Rule::PortLeadingZero(w) => {
            let k = PORT_KEYS[usize::from(*w) % 4];
            let wire = rlp::enc_str(&[0x00, 0x50]);
            if canon_sig {
                set(&mut sem, k, rlp::enc_uint(0x50));
                wire_val.insert(k.to_vec(), wire);
            } else {
                set(&mut sem, k, wire);
            }
        }
        Rule::Port3Bytes(w) => set(&mut sem, PORT_KEYS[usize::from(*w) % 4], rlp::enc_str(&[1, 0, 0])),
        Rule::PortZeroByte(w) => {
            let k = PORT_KEYS[usize::from(*w) % 4];
            if canon_sig {
                set(&mut sem, k, rlp::enc_uint(0));
                wire_val.insert(k.to_vec(), vec![0x00]);
            } else {
                set(&mut sem, k, vec![0x00]);
            }
        }
        Rule::PortList(w) => set(&mut sem, PORT_KEYS[usize::from(*w) % 4], rlp::enc_list(&rlp::enc_uint(80))),
        Rule::SeqLeadingZero => {
            let be = c.seq.to_be_bytes();
            let skip = be.iter().take_while(|b| **b == 0).count().min(7);
            let mut v = vec![0u8];
            v.extend_from_slice(&be[skip..]);
            if v.len() > 8 {
                v.truncate(8);
            }
            seq_wire = rlp::enc_str(&v);
        }
        Rule::Seq9Bytes => {
            seq_wire = rlp::enc_str(&[1, 0, 0, 0, 0, 0, 0, 0, 0]);
            seq_signed = 0;
        }
        Rule::SeqList => seq_wire = rlp::enc_list(&rlp::enc_uint(c.seq)),
        Rule::SeqZeroByte => {
            seq_wire = vec![0x00];
            seq_signed = 0;
        }
        Rule::PadTo(_) | Rule::None => {}
        Rule::BothKeys(other_idx) => {
            let (ok, obytes) = match c.kind {
                PkKind::Secp => (PkKind::Ed, ref_pk(PkKind::Ed, *other_idx)),
                _ => (PkKind::Secp, ref_pk(PkKind::Secp, *other_idx)),
            };
            sem.insert(ok.entry_key().to_vec(), rlp::enc_str(&obytes));
        }
        Rule::PkUncompressed => {
            if c.kind == PkKind::Secp {
                let pk = ref_pk(c.kind, c.key_idx);
                if let Some(u) = rc::secp_uncompressed(&pk, Lib::Libsecp) {
                    let mut full = vec![4u8];
                    full.extend_from_slice(&u);
                    sem.insert(pk_entry.clone(), rlp::enc_str(&full));
                }
            }
        }
        Rule::InnerNonCanonList => {
            set(&mut sem, b"zlist", rlp::enc_list(&[0x81, 0x05, 0xb8, 0x01, 0x61]));
        }
        Rule::JunkOtherKey(n) => {
            let other = match c.kind {
                PkKind::Secp => PkKind::Ed,
                _ => PkKind::Secp,
            };
            let junk: Vec<u8> = match n % 4 {
                0 => vec![],
                1 => vec![1, 2, 3],
                2 => {
                    let mut v = vec![0x02u8];
                    v.extend_from_slice(&[0xff; 32]);
                    v
                }
                _ => vec![0x42; 31],
            };
            sem.insert(other.entry_key().to_vec(), rlp::enc_str(&junk));
        }
        Rule::PkRawXY => {
            if c.kind == PkKind::Secp {
                let pk = ref_pk(c.kind, c.key_idx);
                if let Some(u) = rc::secp_uncompressed(&pk, Lib::Libsecp) {
                    sem.insert(pk_entry.clone(), rlp::enc_str(&u));
                }
            }
        }
        Rule::EdSmallOrder(variant) => {
            if c.kind == PkKind::Ed {
                // the neutral element: canonical, and three non-canonical spellings of it
                let mut neutral = [0u8; 32];
                match variant % 4 {
                    0 => neutral[0] = 1,
                    1 => {
                        neutral[0] = 1;
                        neutral[31] = 0x80;
                    }
                    2 => {
                        neutral = [0xff; 32];
                        neutral[0] = 0xee;
                        neutral[31] = 0x7f;
                    }
                    _ => {
                        neutral = [0xff; 32];
                        neutral[0] = 0xee;
                    }
                }
                sem.insert(pk_entry.clone(), rlp::enc_str(&neutral));
            }
        }
        Rule::OtherSchemeEntryOnly => {
            let v = sem.remove(&pk_entry).unwrap_or_default();
            let other = match c.kind {
                PkKind::Secp => PkKind::Ed,
                _ => PkKind::Secp,
            };
            sem.insert(other.entry_key().to_vec(), v);
        }
        _ => {}
    }

    let mut sem_pairs: Pairs = sem.iter().map(|(k, v)| (k.clone(), v.clone())).collect();

    // size targeting: adjust a trailing pad pair so the canonical wire size hits the target
    if let Rule::PadTo(target) = rule {
        let target = usize::from(*target);
        let sig_len = match c.kind {
            PkKind::Var => crate::keys::VAR_DEFAULT_SIG_LEN,
            _ => 64,
        };
        let key = b"zzpad".to_vec();
        sem_pairs.retain(|(k, _)| *k != key);
        let base = refrec::predicted_size(sig_len, seq_signed, &sem_pairs);
        if target > base + 8 {
            // find a pad length by search (header sizes make it non-linear)
            for n in 0..400usize {
                let mut trial = sem_pairs.clone();
                trial.push((key.clone(), rlp::enc_str(&vec![0xaa; n])));
                trial.sort();
                if refrec::predicted_size(sig_len, seq_signed, &trial) == target {
                    sem_pairs = trial;
                    break;
                }
            }
        }
    }

    // what gets signed
    let mut signed_pairs = sem_pairs.clone();
    match rule {
        Rule::DupKeyOtherValue(i) if !canon_sig && !signed_pairs.is_empty() => {
            let i = usize::from(*i) % signed_pairs.len();
            signed_pairs[i].1 = rlp::enc_str(b"first");
        }
        Rule::DropLastValue if !signed_pairs.is_empty() => {
            if canon_sig {
                signed_pairs.pop();
            } else {
                let l = signed_pairs.len() - 1;
                signed_pairs[l].1 = vec![0x80];
            }
        }
        _ => {}
    }
    let mut payload = refrec::signed_payload(seq_signed, &signed_pairs);
    let mut sig = ref_sign(c.kind, c.key_idx, &payload);
    if *rule == Rule::SigOverDigest {
        let d = rc::keccak256(&payload);
        sig = match c.kind {
            PkKind::Ed => rc::ed_sign(&pool_secret(c.key_idx), &d),
            PkKind::Secp => rc::secp_sign(&pool_secret(c.key_idx), &rc::keccak256(&d), Lib::Libsecp).unwrap_or_default(),
            PkKind::Var => sig,
        };
    }
    if *rule == Rule::SigLeadingZeroStripped && c.kind == PkKind::Secp {
        // deterministic signatures: vary the sequence number until r starts with a zero byte
        let mut s2 = seq_signed;
        for _ in 0..4000 {
            if sig.first() == Some(&0) {
                break;
            }
            s2 = s2.wrapping_add(1);
            payload = refrec::signed_payload(s2, &signed_pairs);
            sig = ref_sign(c.kind, c.key_idx, &payload);
        }
        if sig.first() == Some(&0) {
            seq_wire = rlp::enc_uint(s2);
            sig.remove(0);
        }
    }
    if let Rule::SigLen(n) = rule {
        sig.resize(usize::from(*n), 0x01);
    }
    if matches!(rule, Rule::EdSmallOrder(_)) && c.kind == PkKind::Ed {
        sig = vec![0u8; 64];
        sig[0] = 1;
    }

    // wire items
    let mut sig_item = rlp::enc_str(&sig);
    if *rule == Rule::SigList {
        sig_item = rlp::enc_list(&rlp::enc_str(&sig));
    }
    let mut wire_pairs: Vec<(Vec<u8>, Vec<u8>)> = sem_pairs
        .iter()
        .map(|(k, v)| {
            (
                rlp::enc_str(k),
                wire_val.get(k).cloned().unwrap_or_else(|| v.clone()),
            )
        })
        .collect();
    let n = wire_pairs.len();
    match rule {
        Rule::SwapPairs(i) if n >= 2 => {
            let i = usize::from(*i) % (n - 1);
            wire_pairs.swap(i, i + 1);
        }
        Rule::DupPair(i) if n >= 1 => {
            let i = usize::from(*i) % n;
            let p = wire_pairs[i].clone();
            wire_pairs.insert(i, p);
        }
        Rule::DupKeyOtherValue(i) if n >= 1 => {
            let i = usize::from(*i) % n;
            let mut p = wire_pairs[i].clone();
            p.1 = rlp::enc_str(b"first");
            wire_pairs.insert(i, p);
        }
        Rule::NonCanon(Pos::Key(i)) if n >= 1 => {
            let i = usize::from(*i) % n;
            wire_pairs[i].0 = non_canon_str(&sem_pairs[i].0);
        }
        Rule::NonCanon(Pos::Val(i)) if n >= 1 => {
            let i = usize::from(*i) % n;
            if let Ok(it) = rlp::parse_item(&sem_pairs[i].1) {
                wire_pairs[i].1 = if it.list {
                    rlp::enc_list_long_form(it.payload)
                } else {
                    non_canon_str(it.payload)
                };
            }
        }
        Rule::NonCanon(Pos::Sig) => sig_item = non_canon_str(&sig),
        Rule::NonCanon(Pos::Seq) => {
            let be = seq_signed.to_be_bytes();
            let skip = be.iter().take_while(|b| **b == 0).count();
            seq_wire = non_canon_str(&be[skip..]);
        }
        _ => {}
    }

    let mut body: Vec<u8> = Vec::new();
    match rule {
        Rule::EmptyList => {}
        Rule::OnlySig => body.extend_from_slice(&sig_item),
        Rule::OnlySigSeq => {
            body.extend_from_slice(&sig_item);
            body.extend_from_slice(&seq_wire);
        }
        _ => {
            body.extend_from_slice(&sig_item);
            body.extend_from_slice(&seq_wire);
            for (i, (k, v)) in wire_pairs.iter().enumerate() {
                body.extend_from_slice(k);
                if *rule == Rule::DropLastValue && i + 1 == n {
                    break;
                }
                if *rule == Rule::ItemOverrun && i + 1 == n {
                    // header promises 5 more bytes than the list holds
                    if let Ok(it) = rlp::parse_item(v) {
                        let mut fake = vec![0u8; it.payload.len() + 5];
                        fake[..it.payload.len()].copy_from_slice(it.payload);
                        let enc = rlp::enc_str(&fake);
                        body.extend_from_slice(&enc[..enc.len() - 5]);
                        continue;
                    }
                }
                body.extend_from_slice(v);
            }
            if *rule == Rule::ExtraItem {
                body.push(0x80);
            }
        }
    }
    match rule {
        Rule::NonCanon(Pos::Outer) => rlp::enc_list_long_form(&body),
        Rule::OuterString => {
            let mut out = rlp::enc_str(&body);
            if body.len() == 1 && body[0] < 0x80 {
                out = vec![0x81, body[0]];
            }
            out
        }
        Rule::OuterLenDelta(d) => {
            let claimed = (body.len() as i64 + i64::from(*d)).max(0) as usize;
            let fake = vec![0u8; claimed];
            let hdr_len = rlp::enc_list(&fake).len() - claimed;
            let mut out = rlp::enc_list(&fake)[..hdr_len].to_vec();
            out.extend_from_slice(&body);
            out
        }
        _ => rlp::enc_list(&body),
    }
}

#[derive(Clone, Debug, PartialEq, Eq, Serialize, Deserialize)]
pub enum Tamper {
    SeqTo(u64),
    KeyRename(u8),
    ValueFlip(u8),
    AddPair,
    RemovePair(u8),
    /// replace the public key entry by another key's, keep the signature
    PkSwap(u32),
    /// signed by another key, victim's key entry kept
    ResignWrongKey(u32),
    /// the signature of another record of the same key
    SigFromOther(Vec<u8>),
    HighS,
    SigLen(u8),
    SigRZero,
    SigSZero,
    SigRGeN,
    SigSGeN,
    EdSPlusL,
    SigBitFlip(u16),
    /// the same (r, s) as an ASN.1 DER signature (70-72 bytes) instead of 64 raw bytes
    SigDer,
    /// an extra, unsigned (key, other value) pair spliced in right before the genuine pair of the
    /// same key: a decoder that lets the last occurrence win would verify the original content
    ShadowPair(u8),
}

impl Tamper {
    pub fn name(&self) -> String {
        let s = format!("{self:?}");
        s.split(['(', '{', ' ']).next().unwrap_or("?").to_string()
    }
}

/// Apply a field-level attack to an authentic record (given by its independently parsed fields);
/// the result is re-encoded canonically so that only the attacked field is wrong.
pub fn tamper(f: &Fields, t: &Tamper) -> Option<Vec<u8>> {
    let mut seq = f.seq;
    let mut pairs = f.pairs.clone();
    let mut sig = f.sig.clone();
    let non_fixed: Vec<usize> = pairs
        .iter()
        .enumerate()
        .filter(|(_, (k, _))| k != b"id" && k.as_slice() != f.pk_kind.entry_key())
        .map(|(i, _)| i)
        .collect();
    match t {
        Tamper::SeqTo(s) => {
            if *s == seq {
                seq = seq.wrapping_add(1);
            } else {
                seq = *s;
            }
        }
        Tamper::KeyRename(i) => {
            if non_fixed.is_empty() {
                return None;
            }
            let i = non_fixed[usize::from(*i) % non_fixed.len()];
            let mut k = pairs[i].0.clone();
            k.push(b'x');
            if matches!(k.as_slice(), b"ipx") {
                k = b"ipy".to_vec();
            }
            pairs[i].0 = k;
            pairs.sort();
            // renaming must not create a reserved key with an ill-typed value
            if pairs.windows(2).any(|w| w[0].0 == w[1].0) {
                return None;
            }
        }
        Tamper::ValueFlip(i) => {
            if non_fixed.is_empty() {
                return None;
            }
            let i = non_fixed[usize::from(*i) % non_fixed.len()];
            let key = pairs[i].0.clone();
            let new = match key.as_slice() {
                b"ip" => rlp::enc_str(&[203, 0, 113, 7]),
                b"ip6" => rlp::enc_str(&[0x2a; 16]),
                b"tcp" | b"tcp6" | b"udp" | b"udp6" => rlp::enc_uint(4242),
                _ => rlp::enc_str(b"tampered"),
            };
            if new == pairs[i].1 {
                pairs[i].1 = rlp::enc_uint(4243);
            } else {
                pairs[i].1 = new;
            }
        }
        Tamper::AddPair => {
            if pairs.iter().any(|(k, _)| k == b"zzz") {
                return None;
            }
            pairs.push((b"zzz".to_vec(), rlp::enc_str(b"added")));
            pairs.sort();
        }
        Tamper::RemovePair(i) => {
            if non_fixed.is_empty() {
                return None;
            }
            let i = non_fixed[usize::from(*i) % non_fixed.len()];
            pairs.remove(i);
        }
        Tamper::PkSwap(idx) => {
            let new = ref_pk(f.pk_kind, *idx);
            if new == f.pk_bytes {
                return None;
            }
            for p in &mut pairs {
                if p.0.as_slice() == f.pk_kind.entry_key() {
                    p.1 = rlp::enc_str(&new);
                }
            }
        }
        Tamper::ResignWrongKey(idx) => {
            if ref_pk(f.pk_kind, *idx) == f.pk_bytes {
                return None;
            }
            sig = ref_sign(f.pk_kind, *idx, &refrec::signed_payload(seq, &pairs));
        }
        Tamper::SigFromOther(other) => {
            if *other == sig {
                return None;
            }
            sig = other.clone();
        }
        Tamper::HighS => {
            if f.pk_kind != PkKind::Secp {
                return None;
            }
            sig = rc::high_s_twin(&sig)?;
        }
        Tamper::SigLen(n) => {
            if usize::from(*n) == sig.len() {
                return None;
            }
            sig.resize(usize::from(*n), 0x01);
        }
        Tamper::SigRZero => {
            if sig.len() != 64 {
                return None;
            }
            sig[..32].fill(0);
        }
        Tamper::SigSZero => {
            if sig.len() != 64 {
                return None;
            }
            sig[32..].fill(0);
        }
        Tamper::SigRGeN => {
            if sig.len() != 64 {
                return None;
            }
            sig[..32].copy_from_slice(&rc::N);
        }
        Tamper::SigSGeN => {
            if sig.len() != 64 {
                return None;
            }
            sig[32..].copy_from_slice(&rc::N);
        }
        Tamper::EdSPlusL => {
            if f.pk_kind != PkKind::Ed {
                return None;
            }
            sig = rc::ed_s_plus_l(&sig)?;
        }
        Tamper::ShadowPair(i) => {
            if pairs.is_empty() {
                return None;
            }
            let i = usize::from(*i) % pairs.len();
            let mut shadow = pairs[i].clone();
            shadow.1 = match shadow.0.as_slice() {
                b"ip" => rlp::enc_str(&[198, 51, 100, 9]),
                b"ip6" => rlp::enc_str(&[0x3b; 16]),
                b"tcp" | b"tcp6" | b"udp" | b"udp6" => rlp::enc_uint(31337),
                b"id" => rlp::enc_str(b"v4"),
                _ => rlp::enc_str(b"shadow"),
            };
            pairs.insert(i, shadow);
        }
        Tamper::SigDer => {
            if f.pk_kind != PkKind::Secp || sig.len() != 64 {
                return None;
            }
            let int = |x: &[u8]| -> Vec<u8> {
                let skip = x.iter().take_while(|b| **b == 0).count().min(x.len() - 1);
                let mut v = x[skip..].to_vec();
                if v[0] & 0x80 != 0 {
                    v.insert(0, 0);
                }
                let mut out = vec![0x02, v.len() as u8];
                out.extend_from_slice(&v);
                out
            };
            let mut body = int(&sig[..32]);
            body.extend_from_slice(&int(&sig[32..]));
            let mut der = vec![0x30, body.len() as u8];
            der.extend_from_slice(&body);
            sig = der;
        }
        Tamper::SigBitFlip(b) => {
            if sig.is_empty() {
                return None;
            }
            let bit = usize::from(*b) % (sig.len() * 8);
            sig[bit / 8] ^= 1 << (bit % 8);
        }
    }
    Some(refrec::encode_record(&sig, seq, &pairs))
}
