//! R1 — reference canonical-RLP item parser / encoder, written from the Yellow Paper rules.
//! Independent of alloy-rlp and of `enr`.

#[derive(Clone, Copy, Debug, PartialEq, Eq)]
pub enum RlpErr {
    Empty,
    Truncated,
    NonCanonicalSingleByte,
    NonCanonicalLength,
    LeadingZeroLength,
    TooBig,
}

#[derive(Clone, Copy, Debug, PartialEq, Eq)]
pub struct Item<'a> {
    pub list: bool,
    pub payload: &'a [u8],
    /// header + payload
    pub total_len: usize,
}

/// Parse the first item of `buf` (shallow: the payload of a list is not inspected).
pub fn parse_item(buf: &[u8]) -> Result<Item<'_>, RlpErr> {
    let b = *buf.first().ok_or(RlpErr::Empty)?;
    let (list, hdr, len): (bool, usize, usize) = match b {
        0x00..=0x7f => {
            return Ok(Item {
                list: false,
                payload: &buf[..1],
                total_len: 1,
            })
        }
        0x80..=0xb7 => {
            let len = (b - 0x80) as usize;
            if len == 1 {
                let c = *buf.get(1).ok_or(RlpErr::Truncated)?;
                if c < 0x80 {
                    return Err(RlpErr::NonCanonicalSingleByte);
                }
            }
            (false, 1, len)
        }
        0xb8..=0xbf => {
            let (h, l) = long_len(buf, (b - 0xb7) as usize)?;
            (false, h, l)
        }
        0xc0..=0xf7 => (true, 1, (b - 0xc0) as usize),
        0xf8..=0xff => {
            let (h, l) = long_len(buf, (b - 0xf7) as usize)?;
            (true, h, l)
        }
    };
    let end = hdr.checked_add(len).ok_or(RlpErr::TooBig)?;
    if buf.len() < end {
        return Err(RlpErr::Truncated);
    }
    Ok(Item {
        list,
        payload: &buf[hdr..end],
        total_len: end,
    })
}

fn long_len(buf: &[u8], lol: usize) -> Result<(usize, usize), RlpErr> {
    if buf.len() < 1 + lol {
        return Err(RlpErr::Truncated);
    }
    let lb = &buf[1..1 + lol];
    if lb[0] == 0 {
        return Err(RlpErr::LeadingZeroLength);
    }
    let mut len: u64 = 0;
    for x in lb {
        len = (len << 8) | u64::from(*x);
    }
    if len < 56 {
        return Err(RlpErr::NonCanonicalLength);
    }
    let len = usize::try_from(len).map_err(|_| RlpErr::TooBig)?;
    if len > (1usize << 40) {
        return Err(RlpErr::TooBig);
    }
    Ok((1 + lol, len))
}

/// Split a list payload into its items (shallow).
pub fn split_items(mut payload: &[u8]) -> Result<Vec<(Item<'_>, &[u8])>, RlpErr> {
    let mut out = Vec::new();
    while !payload.is_empty() {
        let it = parse_item(payload)?;
        out.push((it, &payload[..it.total_len]));
        payload = &payload[it.total_len..];
    }
    Ok(out)
}

/// True iff `buf` is exactly one item and, recursively, every nested item is canonical.
pub fn deep_canonical(buf: &[u8]) -> bool {
    match parse_item(buf) {
        Ok(it) if it.total_len == buf.len() => {
            if it.list {
                let mut p = it.payload;
                while !p.is_empty() {
                    match parse_item(p) {
                        Ok(inner) => {
                            if !deep_canonical(&p[..inner.total_len]) {
                                return false;
                            }
                            p = &p[inner.total_len..];
                        }
                        Err(_) => return false,
                    }
                }
            }
            true
        }
        _ => false,
    }
}

/// Canonical unsigned integer from a string payload: no leading zero byte, at most `max_bytes`.
pub fn uint_from_payload(payload: &[u8], max_bytes: usize) -> Option<u64> {
    if payload.len() > max_bytes || payload.len() > 8 {
        return None;
    }
    if payload.first() == Some(&0) {
        return None;
    }
    let mut v: u64 = 0;
    for b in payload {
        v = (v << 8) | u64::from(*b);
    }
    Some(v)
}

fn enc_header(list: bool, len: usize, out: &mut Vec<u8>) {
    let (short, long) = if list { (0xc0u8, 0xf7u8) } else { (0x80u8, 0xb7u8) };
    if len < 56 {
        out.push(short + len as u8);
    } else {
        let be = (len as u64).to_be_bytes();
        let skip = be.iter().take_while(|b| **b == 0).count();
        out.push(long + (8 - skip) as u8);
        out.extend_from_slice(&be[skip..]);
    }
}

pub fn enc_str(b: &[u8]) -> Vec<u8> {
    if b.len() == 1 && b[0] < 0x80 {
        return vec![b[0]];
    }
    let mut out = Vec::with_capacity(b.len() + 3);
    enc_header(false, b.len(), &mut out);
    out.extend_from_slice(b);
    out
}

pub fn enc_list(payload: &[u8]) -> Vec<u8> {
    let mut out = Vec::with_capacity(payload.len() + 3);
    enc_header(true, payload.len(), &mut out);
    out.extend_from_slice(payload);
    out
}

pub fn enc_uint(v: u64) -> Vec<u8> {
    let be = v.to_be_bytes();
    let skip = be.iter().take_while(|b| **b == 0).count();
    enc_str(&be[skip..])
}

pub fn enc_list_of_strs(items: &[&[u8]]) -> Vec<u8> {
    let mut p = Vec::new();
    for i in items {
        p.extend_from_slice(&enc_str(i));
    }
    enc_list(&p)
}

/// Length of the canonical encoding of an item with the given payload length
/// (string payloads of one byte < 0x80 are the caller's business).
pub fn header_len_for(len: usize) -> usize {
    if len < 56 {
        1
    } else {
        let be = (len as u64).to_be_bytes();
        1 + 8 - be.iter().take_while(|b| **b == 0).count()
    }
}

/// Deliberately non-canonical encodings of a string, used by the Byzantine generator.
pub fn enc_str_long_form(b: &[u8]) -> Vec<u8> {
    // long form even though the length is < 56 (or with a leading zero length byte otherwise)
    let mut out = Vec::new();
    if b.len() < 56 {
        out.push(0xb8);
        out.push(b.len() as u8);
    } else {
        out.push(0xb9);
        out.push(0);
        out.push(b.len() as u8);
    }
    out.extend_from_slice(b);
    out
}

pub fn enc_list_long_form(payload: &[u8]) -> Vec<u8> {
    let mut out = Vec::new();
    if payload.len() < 56 {
        out.push(0xf8);
        out.push(payload.len() as u8);
    } else if payload.len() < 256 {
        out.push(0xf9);
        out.push(0);
        out.push(payload.len() as u8);
    } else {
        out.push(0xfa);
        out.push(0);
        out.push((payload.len() >> 8) as u8);
        out.push(payload.len() as u8);
    }
    out.extend_from_slice(payload);
    out
}

#[cfg(test)]
mod tests {
    use super::*;

    #[test]
    fn basics() {
        assert_eq!(enc_str(b""), vec![0x80]);
        assert_eq!(enc_str(&[0x7f]), vec![0x7f]);
        assert_eq!(enc_str(&[0x80]), vec![0x81, 0x80]);
        assert_eq!(enc_uint(0), vec![0x80]);
        assert_eq!(enc_uint(1), vec![0x01]);
        assert_eq!(enc_uint(256), vec![0x82, 0x01, 0x00]);
        assert!(parse_item(&[0x81, 0x05]).is_err());
        assert!(parse_item(&[0xb8, 0x05, 1, 2, 3, 4, 5]).is_err());
        let long = vec![7u8; 60];
        let e = enc_str(&long);
        assert_eq!(e[0], 0xb8);
        assert_eq!(parse_item(&e).unwrap().payload, &long[..]);
        assert!(deep_canonical(&enc_list(&[0x81, 0x80])));
        assert!(!deep_canonical(&enc_list(&[0x81, 0x05])));
    }
}
