//! R3 — reference cryptography. Calls k256 / libsecp256k1 / ed25519-dalek / sha3 directly, never `enr`.
//! Range checks (tags, lengths, r/s range, low-S, n - s) are own big-endian arithmetic.

use sha3::{Digest, Keccak256};

#[derive(Clone, Copy, Debug, PartialEq, Eq)]
pub enum Lib {
    K256,
    Libsecp,
}

pub const N: [u8; 32] = [
    0xFF, 0xFF, 0xFF, 0xFF, 0xFF, 0xFF, 0xFF, 0xFF, 0xFF, 0xFF, 0xFF, 0xFF, 0xFF, 0xFF, 0xFF, 0xFE,
    0xBA, 0xAE, 0xDC, 0xE6, 0xAF, 0x48, 0xA0, 0x3B, 0xBF, 0xD2, 0x5E, 0x8C, 0xD0, 0x36, 0x41, 0x41,
];
pub const HALF_N: [u8; 32] = [
    0x7F, 0xFF, 0xFF, 0xFF, 0xFF, 0xFF, 0xFF, 0xFF, 0xFF, 0xFF, 0xFF, 0xFF, 0xFF, 0xFF, 0xFF, 0xFF,
    0x5D, 0x57, 0x6E, 0x73, 0x57, 0xA4, 0x50, 0x1D, 0xDF, 0xE9, 0x2F, 0x46, 0x68, 0x1B, 0x20, 0xA0,
];
/// Ed25519 group order L, little-endian.
pub const ED_L_LE: [u8; 32] = [
    0xed, 0xd3, 0xf5, 0x5c, 0x1a, 0x63, 0x12, 0x58, 0xd6, 0x9c, 0xf7, 0xa2, 0xde, 0xf9, 0xde, 0x14,
    0x00, 0x00, 0x00, 0x00, 0x00, 0x00, 0x00, 0x00, 0x00, 0x00, 0x00, 0x00, 0x00, 0x00, 0x00, 0x10,
];

pub fn keccak256(b: &[u8]) -> [u8; 32] {
    let mut out = [0u8; 32];
    out.copy_from_slice(&Keccak256::digest(b));
    out
}

fn is_zero(a: &[u8]) -> bool {
    a.iter().all(|b| *b == 0)
}

/// big-endian compare
fn cmp_be(a: &[u8; 32], b: &[u8; 32]) -> std::cmp::Ordering {
    a.cmp(b)
}

fn sub_be(a: &[u8; 32], b: &[u8; 32]) -> [u8; 32] {
    let mut out = [0u8; 32];
    let mut borrow = 0i16;
    for i in (0..32).rev() {
        let mut d = i16::from(a[i]) - i16::from(b[i]) - borrow;
        if d < 0 {
            d += 256;
            borrow = 1;
        } else {
            borrow = 0;
        }
        out[i] = d as u8;
    }
    out
}

pub fn scalar_in_range(x: &[u8; 32]) -> bool {
    !is_zero(x) && cmp_be(x, &N) == std::cmp::Ordering::Less
}

pub fn is_low_s(s: &[u8; 32]) -> bool {
    cmp_be(s, &HALF_N) != std::cmp::Ordering::Greater
}

/// (r, n - s)
pub fn high_s_twin(sig: &[u8]) -> Option<Vec<u8>> {
    if sig.len() != 64 {
        return None;
    }
    let mut s = [0u8; 32];
    s.copy_from_slice(&sig[32..]);
    if !scalar_in_range(&s) {
        return None;
    }
    let t = sub_be(&N, &s);
    let mut out = sig[..32].to_vec();
    out.extend_from_slice(&t);
    Some(out)
}

/// 33-byte compressed key: tag 02/03 (own check) and x on the curve (library).
pub fn secp_pk_valid33(pk: &[u8], lib: Lib) -> bool {
    if pk.len() != 33 || (pk[0] != 2 && pk[0] != 3) {
        return false;
    }
    secp_uncompressed(pk, lib).is_some()
}

/// x || y of a 33-byte compressed key.
pub fn secp_uncompressed(pk: &[u8], lib: Lib) -> Option<[u8; 64]> {
    if pk.len() != 33 || (pk[0] != 2 && pk[0] != 3) {
        return None;
    }
    let mut out = [0u8; 64];
    match lib {
        Lib::Libsecp => {
            let p = secp256k1::PublicKey::from_slice(pk).ok()?;
            out.copy_from_slice(&p.serialize_uncompressed()[1..]);
        }
        Lib::K256 => {
            use k256::elliptic_curve::sec1::ToEncodedPoint;
            let p = k256::PublicKey::from_sec1_bytes(pk).ok()?;
            let e = p.to_encoded_point(false);
            out.copy_from_slice(&e.as_bytes()[1..]);
        }
    }
    Some(out)
}

#[allow(deprecated)]
pub fn secp_pub_from_secret(sk: &[u8; 32], lib: Lib) -> Option<[u8; 33]> {
    match lib {
        Lib::Libsecp => {
            let s = secp256k1::SecretKey::from_slice(sk).ok()?;
            Some(secp256k1::PublicKey::from_secret_key(secp256k1::SECP256K1, &s).serialize())
        }
        Lib::K256 => {
            use k256::elliptic_curve::sec1::ToEncodedPoint;
            let s = k256::SecretKey::from_slice(sk).ok()?;
            let e = s.public_key().to_encoded_point(true);
            let mut out = [0u8; 33];
            out.copy_from_slice(e.as_bytes());
            Some(out)
        }
    }
}

/// Deterministic (RFC 6979) low-S signature over a 32-byte digest.
#[allow(deprecated)]
pub fn secp_sign(sk: &[u8; 32], digest: &[u8; 32], lib: Lib) -> Option<Vec<u8>> {
    match lib {
        Lib::Libsecp => {
            let s = secp256k1::SecretKey::from_slice(sk).ok()?;
            let m = secp256k1::Message::from_digest(*digest);
            Some(
                secp256k1::SECP256K1
                    .sign_ecdsa(&m, &s)
                    .serialize_compact()
                    .to_vec(),
            )
        }
        Lib::K256 => {
            use k256::ecdsa::signature::hazmat::PrehashSigner;
            let s = k256::ecdsa::SigningKey::from_slice(sk).ok()?;
            let sig: k256::ecdsa::Signature = s.sign_prehash(digest).ok()?;
            let sig = sig.normalize_s().unwrap_or(sig);
            Some(sig.to_vec())
        }
    }
}

/// v4 verification: 64 bytes, r and s in [1, n-1], s <= n/2, ECDSA equation holds.
pub fn secp_verify(pk33: &[u8], digest: &[u8; 32], sig: &[u8], lib: Lib) -> bool {
    if sig.len() != 64 || !secp_pk_valid33(pk33, lib) {
        return false;
    }
    let mut r = [0u8; 32];
    let mut s = [0u8; 32];
    r.copy_from_slice(&sig[..32]);
    s.copy_from_slice(&sig[32..]);
    if !scalar_in_range(&r) || !scalar_in_range(&s) || !is_low_s(&s) {
        return false;
    }
    match lib {
        Lib::Libsecp => {
            let Ok(p) = secp256k1::PublicKey::from_slice(pk33) else {
                return false;
            };
            let Ok(sg) = secp256k1::ecdsa::Signature::from_compact(sig) else {
                return false;
            };
            let m = secp256k1::Message::from_digest(*digest);
            secp256k1::SECP256K1.verify_ecdsa(&m, &sg, &p).is_ok()
        }
        Lib::K256 => {
            use k256::ecdsa::signature::hazmat::PrehashVerifier;
            let Ok(p) = k256::ecdsa::VerifyingKey::from_sec1_bytes(pk33) else {
                return false;
            };
            let Ok(sg) = k256::ecdsa::Signature::from_slice(sig) else {
                return false;
            };
            p.verify_prehash(digest, &sg).is_ok()
        }
    }
}

#[derive(Clone, Copy, Debug, PartialEq, Eq)]
pub enum EdPkClass {
    Valid,
    Invalid,
    /// small order or non-canonically encoded: strict and non-strict verifiers legitimately differ
    Excluded,
}

pub fn ed_pk_class(pk: &[u8]) -> EdPkClass {
    if pk.len() != 32 {
        return EdPkClass::Invalid;
    }
    let mut b = [0u8; 32];
    b.copy_from_slice(pk);
    // y >= p = 2^255 - 19 ?
    let y_top = b[31] & 0x7f;
    let non_canonical_y = y_top == 0x7f && b[1..31].iter().all(|x| *x == 0xff) && b[0] >= 0xed;
    match ed25519_dalek::VerifyingKey::from_bytes(&b) {
        Err(_) => {
            if non_canonical_y {
                EdPkClass::Excluded
            } else {
                EdPkClass::Invalid
            }
        }
        Ok(vk) => {
            if non_canonical_y || vk.is_weak() {
                EdPkClass::Excluded
            } else {
                EdPkClass::Valid
            }
        }
    }
}

pub fn ed_pub_from_secret(sk: &[u8; 32]) -> [u8; 32] {
    ed25519_dalek::SigningKey::from_bytes(sk)
        .verifying_key()
        .to_bytes()
}

pub fn ed_sign(sk: &[u8; 32], msg: &[u8]) -> Vec<u8> {
    use ed25519_dalek::Signer;
    ed25519_dalek::SigningKey::from_bytes(sk)
        .sign(msg)
        .to_bytes()
        .to_vec()
}

pub fn ed_verify(pk: &[u8], msg: &[u8], sig: &[u8]) -> bool {
    use ed25519_dalek::Verifier;
    if pk.len() != 32 || sig.len() != 64 {
        return false;
    }
    let mut b = [0u8; 32];
    b.copy_from_slice(pk);
    let Ok(vk) = ed25519_dalek::VerifyingKey::from_bytes(&b) else {
        return false;
    };
    let Ok(sg) = ed25519_dalek::Signature::from_slice(sig) else {
        return false;
    };
    vk.verify(msg, &sg).is_ok()
}

/// (R, S + L) — the malleated twin of an Ed25519 signature (little-endian addition).
pub fn ed_s_plus_l(sig: &[u8]) -> Option<Vec<u8>> {
    if sig.len() != 64 {
        return None;
    }
    let mut out = sig.to_vec();
    let mut carry = 0u16;
    for i in 0..32 {
        let v = u16::from(sig[32 + i]) + u16::from(ED_L_LE[i]) + carry;
        out[32 + i] = v as u8;
        carry = v >> 8;
    }
    if carry != 0 {
        return None;
    }
    Some(out)
}

#[cfg(test)]
mod tests {
    use super::*;
    #[test]
    fn libs_agree() {
        let sk = [7u8; 32];
        let a = secp_pub_from_secret(&sk, Lib::K256).unwrap();
        let b = secp_pub_from_secret(&sk, Lib::Libsecp).unwrap();
        assert_eq!(a, b);
        assert_eq!(
            secp_uncompressed(&a, Lib::K256),
            secp_uncompressed(&a, Lib::Libsecp)
        );
        let d = keccak256(b"hello");
        for l in [Lib::K256, Lib::Libsecp] {
            let sig = secp_sign(&sk, &d, l).unwrap();
            assert!(secp_verify(&a, &d, &sig, Lib::K256));
            assert!(secp_verify(&a, &d, &sig, Lib::Libsecp));
            let hi = high_s_twin(&sig).unwrap();
            assert!(!secp_verify(&a, &d, &hi, Lib::K256));
            assert!(!secp_verify(&a, &d, &hi, Lib::Libsecp));
        }
        let mut t = a;
        t[0] = 5;
        assert!(!secp_pk_valid33(&t, Lib::K256));
    }
}
