//! The C03 monitor: every call into `enr` goes through `guard`, which catches unwinds and records them.

use std::cell::RefCell;
use std::panic::{catch_unwind, AssertUnwindSafe};

thread_local! {
    static PANICS: RefCell<Vec<String>> = const { RefCell::new(Vec::new()) };
    static LAST: RefCell<String> = const { RefCell::new(String::new()) };
}

pub fn install_hook() {
    std::panic::set_hook(Box::new(|info| {
        let loc = info
            .location()
            .map(|l| format!("{}:{}", l.file(), l.line()))
            .unwrap_or_default();
        let msg = if let Some(s) = info.payload().downcast_ref::<&str>() {
            (*s).to_string()
        } else if let Some(s) = info.payload().downcast_ref::<String>() {
            s.clone()
        } else {
            "<non-string panic>".to_string()
        };
        LAST.with(|l| *l.borrow_mut() = format!("{loc}: {msg}"));
    }));
}

pub fn last_panic() -> String {
    LAST.with(|l| l.borrow().clone())
}

/// Run a call into the library; `None` means it panicked (recorded for C03).
pub fn guard<T>(what: &str, f: impl FnOnce() -> T) -> Option<T> {
    match catch_unwind(AssertUnwindSafe(f)) {
        Ok(v) => Some(v),
        Err(_) => {
            let detail = last_panic();
            PANICS.with(|p| p.borrow_mut().push(format!("{what} panicked at {detail}")));
            None
        }
    }
}

pub fn take_panics() -> Vec<String> {
    PANICS.with(|p| std::mem::take(&mut *p.borrow_mut()))
}
