//! Non-generic snapshots of everything observable on a record. All calls into `enr` are guarded.

use crate::guard::guard;
use alloy_rlp::Decodable;
use bytes::Bytes;
use enr::{Enr, EnrKey, EnrPublicKey, NodeId};
use std::hash::{Hash, Hasher};

pub type Pairs = Vec<(Vec<u8>, Vec<u8>)>;

#[derive(Clone, Debug, Default, PartialEq, Eq)]
pub struct KeyProbe {
    pub key: Vec<u8>,
    /// as reported by iter()
    pub raw: Vec<u8>,
    pub get_raw_rlp: Option<Vec<u8>>,
    pub dec_u16: Option<u16>,
    pub dec_u64: Option<u64>,
    pub dec_bytes: Option<Vec<u8>>,
    pub dec_list: Option<Vec<Vec<u8>>>,
    /// deprecated get(): None if it panicked
    pub dep_get: Option<Option<Vec<u8>>>,
}

/// Observable fields of a record obtained by decoding some image of another record.
#[derive(Clone, Debug, Default, PartialEq, Eq)]
pub struct Lite {
    pub seq: u64,
    pub node_id: [u8; 32],
    pub sig: Vec<u8>,
    pub pairs: Pairs,
    pub encoded: Vec<u8>,
    pub pk_enc: Option<Vec<u8>>,
    pub eq_orig: bool,
    pub eq_orig_rev: bool,
    pub hash: u64,
    pub verify: Option<bool>,
}

#[derive(Clone, Debug, Default, PartialEq, Eq)]
pub struct View {
    pub seq: u64,
    pub node_id: [u8; 32],
    pub sig: Vec<u8>,
    pub pairs: Pairs,
    pub into_iter_pairs: Option<Pairs>,
    pub encoded: Vec<u8>,
    /// `Encodable::length()` — what alloy-rlp uses to frame a record inside a list
    pub enc_length: Option<usize>,
    pub size: Option<usize>,
    pub verify: Option<bool>,
    pub pk_enc: Option<Vec<u8>>,
    pub pk_unc: Option<Vec<u8>>,
    pub pk_enr_key: Option<Vec<u8>>,
    pub node_id_from_pk: Option<[u8; 32]>,
    pub node_id_from_ref: Option<[u8; 32]>,
    pub id: Option<Option<String>>,
    pub ip4: Option<Option<[u8; 4]>>,
    pub ip6: Option<Option<[u8; 16]>>,
    pub tcp4: Option<Option<u16>>,
    pub tcp6: Option<Option<u16>>,
    pub udp4: Option<Option<u16>>,
    pub udp6: Option<Option<u16>>,
    pub udp4_socket: Option<Option<([u8; 4], u16)>>,
    pub tcp4_socket: Option<Option<([u8; 4], u16)>>,
    pub udp6_socket: Option<Option<([u8; 16], u16, u32, u32)>>,
    pub tcp6_socket: Option<Option<([u8; 16], u16, u32, u32)>>,
    pub udp_reachable: Option<bool>,
    pub tcp_reachable: Option<bool>,
    pub client_info: Option<Option<(String, String, Option<String>)>>,
    pub base64: Option<String>,
    pub display: Option<String>,
    pub debug_len: Option<usize>,
    pub json: Option<Option<String>>,
    pub hash: u64,
    pub eq_self: bool,
    pub clone_ok: bool,
    pub cmp_content_self: Option<bool>,
    pub probes: Vec<KeyProbe>,
    pub absent_probe_none: bool,
    /// deep inspection only
    pub deep: bool,
    pub rt_bytes: Option<Option<Lite>>,
    pub rt_bytes_consumed: Option<usize>,
    pub rt_text: Option<Option<Lite>>,
    pub rt_text_noprefix: Option<Option<Lite>>,
    pub rt_json: Option<Option<Lite>>,
    /// other routes through serde: a serde_json::Value, a reader, a JSON string with an escape
    pub rt_json_value: Option<Option<Lite>>,
    pub rt_json_reader: Option<Option<Lite>>,
    pub rt_json_escaped: Option<Option<Lite>>,
}

pub fn fixed_hash<T: Hash>(t: &T) -> u64 {
    #[allow(deprecated)]
    let mut h = std::hash::SipHasher::new_with_keys(0x0123_4567_89ab_cdef, 0xfedc_ba98_7654_3210);
    t.hash(&mut h);
    h.finish()
}

pub fn pairs_of<K: EnrKey>(e: &Enr<K>) -> Pairs {
    e.iter().map(|(k, v)| (k.clone(), v.to_vec())).collect()
}

pub fn lite<K: EnrKey>(e: &Enr<K>, orig: &Enr<K>) -> Lite {
    Lite {
        seq: e.seq(),
        node_id: e.node_id().raw(),
        sig: e.signature().to_vec(),
        pairs: pairs_of(e),
        encoded: alloy_rlp::encode(e),
        pk_enc: guard("public_key", || e.public_key().encode().as_ref().to_vec()),
        eq_orig: e == orig,
        eq_orig_rev: orig == e,
        hash: fixed_hash(e),
        verify: guard("verify", || e.verify()),
    }
}

#[allow(deprecated, clippy::too_many_lines)]
pub fn inspect<K: EnrKey>(e: &Enr<K>, deep: bool) -> View {
    let mut v = View {
        seq: e.seq(),
        node_id: e.node_id().raw(),
        sig: e.signature().to_vec(),
        deep,
        ..View::default()
    };
    v.pairs = guard("iter", || pairs_of(e)).unwrap_or_default();
    v.encoded = guard("encode", || alloy_rlp::encode(e)).unwrap_or_default();
    v.size = guard("size", || e.size());
    v.enc_length = guard("Encodable::length", || alloy_rlp::Encodable::length(e));
    v.verify = guard("verify", || e.verify());
    v.pk_enc = guard("public_key().encode", || {
        e.public_key().encode().as_ref().to_vec()
    });
    v.pk_unc = guard("public_key().encode_uncompressed", || {
        e.public_key().encode_uncompressed().as_ref().to_vec()
    });
    v.pk_enr_key = guard("public_key().enr_key", || e.public_key().enr_key());
    v.node_id_from_pk = guard("NodeId::from(public_key)", || {
        NodeId::from(e.public_key()).raw()
    });
    v.node_id_from_ref = guard("NodeId::from(&enr)", || {
        let by_ref = NodeId::from(e).raw();
        let by_val = NodeId::from(e.clone()).raw();
        if by_ref == by_val {
            by_ref
        } else {
            [0u8; 32] // disagreement shows up as a C10 mismatch with node_id()
        }
    });
    v.id = guard("id", || e.id());
    v.ip4 = guard("ip4", || e.ip4().map(|a| a.octets()));
    v.ip6 = guard("ip6", || e.ip6().map(|a| a.octets()));
    v.tcp4 = guard("tcp4", || e.tcp4());
    v.tcp6 = guard("tcp6", || e.tcp6());
    v.udp4 = guard("udp4", || e.udp4());
    v.udp6 = guard("udp6", || e.udp6());
    v.udp4_socket = guard("udp4_socket", || {
        e.udp4_socket().map(|s| (s.ip().octets(), s.port()))
    });
    v.tcp4_socket = guard("tcp4_socket", || {
        e.tcp4_socket().map(|s| (s.ip().octets(), s.port()))
    });
    v.udp6_socket = guard("udp6_socket", || {
        e.udp6_socket()
            .map(|s| (s.ip().octets(), s.port(), s.flowinfo(), s.scope_id()))
    });
    v.tcp6_socket = guard("tcp6_socket", || {
        e.tcp6_socket()
            .map(|s| (s.ip().octets(), s.port(), s.flowinfo(), s.scope_id()))
    });
    v.udp_reachable = guard("is_udp_reachable", || e.is_udp_reachable());
    v.tcp_reachable = guard("is_tcp_reachable", || e.is_tcp_reachable());
    v.client_info = guard("client_info", || e.client_info());
    v.base64 = guard("to_base64", || e.to_base64());
    v.display = guard("Display", || format!("{e}"));
    v.debug_len = guard("Debug", || format!("{e:?}").len());
    let _ = guard("NodeId fmt", || {
        let n = e.node_id();
        format!("{n}{n:?}").len()
    });
    v.json = guard("serde_json::to_string", || serde_json::to_string(e).ok());
    v.hash = guard("Hash", || fixed_hash(e)).unwrap_or(0);
    v.eq_self = guard("==", || e == e).unwrap_or(false);
    v.clone_ok = guard("Clone", || {
        let c = e.clone();
        c == *e && *e == c && fixed_hash(&c) == fixed_hash(e) && pairs_of(&c) == pairs_of(e)
    })
    .unwrap_or(false);
    v.cmp_content_self = guard("compare_content", || e.compare_content(e));
    v.into_iter_pairs = guard("into_iter", || {
        e.clone()
            .into_iter()
            .map(|(k, val)| (k, val.to_vec()))
            .collect::<Pairs>()
    });

    for (k, raw) in &v.pairs {
        let mut p = KeyProbe {
            key: k.clone(),
            raw: raw.clone(),
            ..KeyProbe::default()
        };
        p.get_raw_rlp = guard("get_raw_rlp", || e.get_raw_rlp(k).map(<[u8]>::to_vec)).flatten();
        p.dec_u16 = guard("get_decodable<u16>", || {
            e.get_decodable::<u16>(k).and_then(Result::ok)
        })
        .flatten();
        p.dec_u64 = guard("get_decodable<u64>", || {
            e.get_decodable::<u64>(k).and_then(Result::ok)
        })
        .flatten();
        p.dec_bytes = guard("get_decodable<Bytes>", || {
            e.get_decodable::<Bytes>(k)
                .and_then(Result::ok)
                .map(|b| b.to_vec())
        })
        .flatten();
        p.dec_list = guard("get_decodable<Vec<Bytes>>", || {
            e.get_decodable::<Vec<Bytes>>(k)
                .and_then(Result::ok)
                .map(|l| l.into_iter().map(|b| b.to_vec()).collect())
        })
        .flatten();
        p.dep_get = guard("get (deprecated)", || e.get(k).map(|b| b.to_vec()));
        v.probes.push(p);
    }
    v.absent_probe_none = guard("absent key", || {
        let k = b"\xffabsent\xff";
        e.get_raw_rlp(k).is_none()
            && e.get(k).is_none()
            && e.get_decodable::<u16>(k).is_none()
            && e.get_decodable::<Bytes>(k).is_none()
    })
    .unwrap_or(false);

    if deep {
        let enc = v.encoded.clone();
        let r = guard("decode(encode)", || {
            let mut b: &[u8] = &enc;
            let before = b.len();
            let r = Enr::<K>::decode(&mut b).ok().map(|d| lite(&d, e));
            (r, before - b.len())
        });
        if let Some((r, consumed)) = r {
            v.rt_bytes = Some(r);
            v.rt_bytes_consumed = Some(consumed);
        }
        if let Some(t) = v.base64.clone() {
            v.rt_text = guard("parse(to_base64)", || {
                t.parse::<Enr<K>>().ok().map(|d| lite(&d, e))
            });
            if t.len() >= 4 {
                let np = t[4..].to_string();
                v.rt_text_noprefix = guard("parse(no prefix)", || {
                    np.parse::<Enr<K>>().ok().map(|d| lite(&d, e))
                });
            }
        }
        if let Some(Some(j)) = v.json.clone() {
            v.rt_json = guard("serde_json::from_str", || {
                serde_json::from_str::<Enr<K>>(&j).ok().map(|d| lite(&d, e))
            });
            v.rt_json_value = guard("serde_json::from_value", || {
                serde_json::to_value(e)
                    .ok()
                    .and_then(|val| serde_json::from_value::<Enr<K>>(val).ok())
                    .map(|d| lite(&d, e))
            });
            v.rt_json_reader = guard("serde_json::from_reader", || {
                serde_json::from_reader::<_, Enr<K>>(j.as_bytes())
                    .ok()
                    .map(|d| lite(&d, e))
            });
            // the same JSON string spelled with an escape sequence
            if let Some(rest) = j.strip_prefix("\"e") {
                let esc = format!("\"\\u0065{rest}");
                v.rt_json_escaped = guard("serde_json::from_str (escaped)", || {
                    serde_json::from_str::<Enr<K>>(&esc).ok().map(|d| lite(&d, e))
                });
            }
        }
    }
    v
}
