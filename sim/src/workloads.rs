//! Fixed, labelled workloads that complement the seeded search:
//!  * every mutator sequence of length <= 2 (sampled at 3) over the 22-call alphabet, canonical arguments;
//!  * the port sweep of C14 (all 65 536 values in the thorough tier, a stride in the quick tier).

use crate::keys::Backend;
use crate::ops::{BCall, IpArg, Op, PkSel, Val};
use crate::rng::Rng;
use crate::run::{flavour, Trace};
use crate::world::{Event, Form, NodeSpec};

#[derive(Clone, Debug)]
pub enum Item {
    Seq { backend: Backend, init: u8, ops: Vec<u8>, slot: u8 },
    PortSweep { backend: Backend, lo: u32, hi: u32, step: u32 },
}

pub fn canonical_op(i: u8) -> Op {
    match i % 22 {
        0 => Op::SetSeq(1000),
        1 => Op::Insert { key: b"eth2".to_vec(), val: Val::Bytes(vec![1, 2, 3, 4, 5, 6, 7, 8]) },
        2 => Op::InsertRaw { key: b"attnets".to_vec(), raw: vec![0x88, 0xff, 0, 0, 0, 0, 0, 0, 1] },
        3 => Op::SetIp(IpArg::V4([10, 0, 0, 1])),
        4 => Op::SetUdp4(9000),
        5 => Op::RemoveUdp4,
        6 => Op::SetUdp6(9001),
        7 => Op::RemoveUdp6,
        8 => Op::SetTcp4(30303),
        9 => Op::RemoveTcp,
        10 => Op::SetTcp6(255),
        11 => Op::RemoveTcp6,
        12 => Op::SetClientInfo { name: "sim".into(), version: "1".into(), build: Some("b".into()) },
        13 => Op::SetUdpSocket(IpArg::V6([0x20, 1, 0xd, 0xb8, 0, 0, 0, 0, 0, 0, 0, 0, 0, 0, 0, 1]), 128),
        14 => Op::RemoveUdpSocket,
        15 => Op::RemoveUdp6Socket,
        16 => Op::SetTcpSocket(IpArg::V4([192, 168, 1, 2]), 0),
        17 => Op::RemoveTcpSocket,
        18 => Op::RemoveTcp6Socket,
        19 => Op::RemoveKey(b"eth2".to_vec()),
        20 => Op::RemoveInsert { remove: vec![b"udp".to_vec()], insert: vec![(b"tcp".to_vec(), vec![0x23, 0x82]), (b"z".to_vec(), vec![])] },
        _ => Op::SetPublicKey(PkSel::Signer),
    }
}

fn init_calls(init: u8) -> Vec<BCall> {
    let typical = vec![
        BCall::Ip4([127, 0, 0, 1]),
        BCall::Udp4(30303),
        BCall::Tcp4(30303),
        BCall::AddValue { key: b"eth2".to_vec(), val: Val::Bytes(vec![9; 16]) },
    ];
    match init % 5 {
        0 => vec![],
        1 => typical,
        2 => {
            let mut c = vec![BCall::Seq(u64::MAX - 1)];
            c.extend(typical);
            c
        }
        3 => {
            let mut c = typical;
            c.push(BCall::AddValue { key: b"zzpad".to_vec(), val: Val::Bytes(vec![0xaa; 118]) });
            c.push(BCall::Seq(255));
            c
        }
        _ => {
            let mut c = typical;
            c.push(BCall::Ip6([0xfe, 0x80, 0, 0, 0, 0, 0, 0, 0, 0, 0, 0, 0, 0, 0, 9]));
            c.push(BCall::Udp6(1));
            c.push(BCall::Tcp6(65535));
            c.push(BCall::Seq(127));
            c
        }
    }
}

pub fn items(prop: &str, thorough: bool, root: u64) -> Vec<Item> {
    let mut out = Vec::new();
    if matches!(prop, "C05" | "C06" | "C07" | "C08" | "C09" | "C10") {
        let mut rng = Rng::new(root ^ 0x5e9_5e9);
        for backend in Backend::available() {
            for init in 0..5u8 {
                // quick tier: all five initial records for C05, two of them for the others
                if !thorough && prop != "C05" && !matches!(init, 2 | 3) {
                    continue;
                }
                for slot in 0..2u8 {
                    if slot == 1 && !matches!(prop, "C05" | "C10") {
                        continue;
                    }
                    for a in 0..22u8 {
                        out.push(Item::Seq { backend, init, ops: vec![a], slot });
                        for b in 0..22u8 {
                            out.push(Item::Seq { backend, init, ops: vec![a, b], slot });
                        }
                    }
                }
                let n3 = if thorough { 1500 } else { 40 };
                for _ in 0..n3 {
                    out.push(Item::Seq {
                        backend,
                        init,
                        ops: vec![rng.below(22) as u8, rng.below(22) as u8, rng.below(22) as u8],
                        slot: 0,
                    });
                }
            }
        }
    }
    if prop == "C14" {
        let step = if thorough { 1 } else { 61 };
        let chunk = if thorough { 128 } else { 61 * 64 };
        for backend in Backend::available() {
            if backend == Backend::Var || backend == Backend::CombEd {
                continue;
            }
            let mut lo = 0u32;
            while lo < 65536 {
                out.push(Item::PortSweep { backend, lo, hi: (lo + chunk).min(65536), step });
                lo += chunk;
            }
        }
    }
    out
}

pub fn trace_for(prop: &str, item: &Item) -> Trace {
    let (nodes, events, workload) = match item {
        Item::Seq { backend, init, ops, slot } => {
            let nodes = vec![NodeSpec { backend: *backend, keys: vec![3, 9, 11] }];
            let mut ev = vec![Event::Build { node: 0, slot: 0, calls: init_calls(*init), reuse: None }];
            for (i, o) in ops.iter().enumerate() {
                // the last call of a sequence may be made with the node's second key (re-keying)
                let s = if i + 1 == ops.len() { *slot } else { 0 };
                ev.push(Event::Op { node: 0, slot: s, op: canonical_op(*o) });
            }
            ev.push(Event::Tail);
            (nodes, ev, "bounded-sequences")
        }
        Item::PortSweep { backend, lo, hi, step } => {
            let nodes = vec![NodeSpec { backend: *backend, keys: vec![5, 6, 7] }];
            let mut ev = Vec::new();
            let mut p = *lo;
            while p < *hi {
                let port = p as u16;
                ev.push(Event::Build {
                    node: 0,
                    slot: 0,
                    calls: vec![
                        BCall::Ip4([10, 1, 2, 3]),
                        BCall::Ip6([0xfd, 0, 0, 0, 0, 0, 0, 0, 0, 0, 0, 0, 0, 0, 0, 1]),
                        BCall::Tcp4(port),
                        BCall::Tcp6(port),
                        BCall::Udp4(port),
                        BCall::Udp6(port),
                    ],
                    reuse: None,
                });
                ev.push(Event::Publish { node: 0, form: Form::Binary, deliver: true });
                let q = port.wrapping_mul(40503).wrapping_add(1);
                ev.push(Event::Op { node: 0, slot: 0, op: Op::SetTcp4(q) });
                ev.push(Event::Op { node: 0, slot: 0, op: Op::SetUdp6(q) });
                ev.push(Event::Op { node: 0, slot: 0, op: Op::SetTcp6(port) });
                ev.push(Event::Op { node: 0, slot: 0, op: Op::SetUdp4(port) });
                ev.push(Event::Op { node: 0, slot: 0, op: Op::SetUdpSocket(IpArg::V4([10, 9, 8, 7]), q) });
                ev.push(Event::Op { node: 0, slot: 0, op: Op::SetTcpSocket(IpArg::V6([0xfd, 0, 0, 0, 0, 0, 0, 0, 0, 0, 0, 0, 0, 0, 0, 2]), q) });
                ev.push(Event::Publish { node: 0, form: Form::Binary, deliver: true });
                p += *step;
            }
            (nodes, ev, "c14-port-sweep")
        }
    };
    Trace {
        version: 1,
        property: prop.to_string(),
        flavour: flavour().to_string(),
        seed: 1,
        workload: workload.into(),
        nodes,
        events,
        violation: None,
        minimised: false,
        note: format!("{item:?}"),
    }
}

/// Sanity of the reference models against a published vector (EIP-778 example record) and of the
/// library against the same: run at set-up time so a broken oracle is noticed before any check.
pub fn selftest() -> i32 {
    use crate::refcrypto::Lib;
    use crate::refrec::{parse, Scheme, Verdict};
    let text = "enr:-IS4QHCYrYZbAKWCBRlAy5zzaDZXJBGkcnh4MHcBFZntXNFrdvJjX04jRzjzCBOonrkTfj499SZuOh8R33Ls8RRcy5wBgmlkgnY0gmlwhH8AAAGJc2VjcDI1NmsxoQPKY0yuDUmstAHYpMa2_oxVtw0RW_QAdpzBQA8yWM0xOIN1ZHCCdl8";
    let expect_id = "a448f24c6d18e575453db13171562b71999873db5b286df957af199ec94617f7";
    let Some(bytes) = crate::reftext::b64url_decode_strict(&text[4..]) else {
        eprintln!("selftest: reference base64 decoder rejects the EIP-778 vector");
        return 2;
    };
    let mut ok = true;
    for lib in [Lib::K256, Lib::Libsecp] {
        match parse(&bytes, Scheme::Secp, lib) {
            Verdict::Accept(f) => {
                if crate::battery::hex(&f.node_id) != expect_id || f.seq != 1 || f.total_len != bytes.len() {
                    eprintln!("selftest: reference decoder reports wrong fields for the EIP-778 vector");
                    ok = false;
                }
                if crate::refrec::encode_record(&f.sig, f.seq, &f.pairs) != bytes {
                    eprintln!("selftest: reference encoder does not reproduce the EIP-778 vector");
                    ok = false;
                }
            }
            v => {
                eprintln!("selftest: reference decoder does not accept the EIP-778 vector: {v:?}");
                ok = false;
            }
        }
    }
    if crate::reftext::text_form(&bytes) != text {
        eprintln!("selftest: reference text form differs");
        ok = false;
    }
    let out = crate::recv::decode_as(crate::keys::DecType::K256, &bytes, true);
    match out.view {
        Some(v) => {
            if crate::battery::hex(&v.node_id) != expect_id {
                eprintln!("selftest: library reports another node id for the EIP-778 vector");
                ok = false;
            }
        }
        None => {
            eprintln!("selftest: library rejects the EIP-778 vector");
            ok = false;
        }
    }
    // determinism of signatures under the hook
    enr::verif_hooks::seed_signing_rng(Some(7));
    let k = enr::k256::ecdsa::SigningKey::from_slice(&[7u8; 32]).unwrap();
    let a = enr::Enr::empty(&k).map(|e| e.signature().to_vec()).ok();
    enr::verif_hooks::seed_signing_rng(Some(7));
    let b = enr::Enr::empty(&k).map(|e| e.signature().to_vec()).ok();
    enr::verif_hooks::seed_signing_rng(None);
    if a.is_none() || a != b {
        eprintln!("selftest: the signing-RNG hook does not make signatures repeatable");
        ok = false;
    }
    if ok {
        println!("selftest ok ({})", flavour());
        0
    } else {
        2
    }
}
