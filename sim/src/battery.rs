//! Record-local invariants, evaluated on a `View` of any record the library handed out
//! (built, updated or decoded). Oracles only use R1/R2/R3/R5, never `enr`.

use crate::keys::DecType;
use crate::ops::{ip4_of, ip6_of, one_item, port_of};
use crate::refcrypto::{self as rc, Lib};
use crate::refrec::{self, PkKind, Scheme, Verdict};
use crate::refrlp as rlp;
use crate::reftext;
use crate::view::{Lite, View};

#[derive(Clone, Debug, PartialEq, Eq, PartialOrd, Ord, serde::Serialize, serde::Deserialize)]
pub struct Violation {
    pub prop: String,
    /// normalised description of what failed — the fingerprint, independent of seed and values
    pub check: String,
    pub detail: String,
}

pub fn viol(prop: &str, check: impl Into<String>, detail: impl Into<String>) -> Violation {
    Violation {
        prop: prop.to_string(),
        check: check.into(),
        detail: detail.into(),
    }
}

pub fn hex(b: &[u8]) -> String {
    const H: &[u8; 16] = b"0123456789abcdef";
    let mut s = String::with_capacity(b.len() * 2);
    for x in b {
        s.push(H[(x >> 4) as usize] as char);
        s.push(H[(x & 15) as usize] as char);
    }
    s
}

pub struct RecCtx {
    /// "built" | "updated" | "decoded" | "reloaded"
    pub origin: &'static str,
    pub dec: DecType,
    /// C05 applies (the record came out of an Ok of an in-scope call)
    pub in_scope: bool,
}

fn raw_of<'a>(v: &'a View, key: &[u8]) -> Option<&'a [u8]> {
    v.pairs
        .iter()
        .find(|(k, _)| k.as_slice() == key)
        .map(|(_, r)| r.as_slice())
}

fn str_payload(raw: &[u8]) -> Option<&[u8]> {
    match rlp::parse_item(raw) {
        Ok(it) if it.total_len == raw.len() && !it.list => Some(it.payload),
        _ => None,
    }
}

fn list_of_strs(raw: &[u8]) -> Option<Vec<Vec<u8>>> {
    let it = rlp::parse_item(raw).ok()?;
    if it.total_len != raw.len() || !it.list {
        return None;
    }
    let items = rlp::split_items(it.payload).ok()?;
    let mut out = Vec::new();
    for (i, _) in items {
        if i.list {
            return None;
        }
        out.push(i.payload.to_vec());
    }
    Some(out)
}

/// Which public-key entry the record's key type stands on, by the reference rules.
pub fn ref_pk_of(v: &View, dec: DecType, lib: Lib) -> Option<(PkKind, Vec<u8>)> {
    let secp = raw_of(v, b"secp256k1")
        .and_then(str_payload)
        .map(<[u8]>::to_vec);
    let ed = raw_of(v, b"ed25519")
        .and_then(str_payload)
        .map(<[u8]>::to_vec);
    match dec.scheme() {
        Scheme::Secp => secp.map(|b| (PkKind::Secp, b)),
        Scheme::Ed => ed.map(|b| (PkKind::Ed, b)),
        Scheme::Combined => match secp {
            Some(b) if b.len() == 65 || rc::secp_pk_valid33(&b, lib) => Some((PkKind::Secp, b)),
            _ => ed.map(|b| (PkKind::Ed, b)),
        },
        Scheme::Var => raw_of(v, crate::keys::VAR_ENR_KEY)
            .and_then(str_payload)
            .map(|b| (PkKind::Var, b.to_vec())),
    }
}

fn lossy(b: &[u8]) -> String {
    String::from_utf8_lossy(b).to_string()
}

/// C14: typed accessors agree with the raw content.
pub fn check_c14(v: &View, out: &mut Vec<Violation>) {
    let exp_ip4 = raw_of(v, b"ip").and_then(ip4_of);
    let exp_ip6 = raw_of(v, b"ip6").and_then(ip6_of);
    let exp_tcp4 = raw_of(v, b"tcp").and_then(port_of);
    let exp_tcp6 = raw_of(v, b"tcp6").and_then(port_of);
    let exp_udp4 = raw_of(v, b"udp").and_then(port_of);
    let exp_udp6 = raw_of(v, b"udp6").and_then(port_of);
    macro_rules! cmp {
        ($field:ident, $exp:expr, $name:expr) => {
            if let Some(got) = &v.$field {
                if *got != $exp {
                    out.push(viol(
                        "C14",
                        format!("C14/accessor/{}", $name),
                        format!("{}() = {:?} but raw content says {:?}", $name, got, $exp),
                    ));
                }
            }
        };
    }
    cmp!(ip4, exp_ip4, "ip4");
    cmp!(ip6, exp_ip6, "ip6");
    cmp!(tcp4, exp_tcp4, "tcp4");
    cmp!(tcp6, exp_tcp6, "tcp6");
    cmp!(udp4, exp_udp4, "udp4");
    cmp!(udp6, exp_udp6, "udp6");
    let exp_id = raw_of(v, b"id").and_then(str_payload).map(lossy);
    cmp!(id, exp_id, "id");
    let exp_client = raw_of(v, b"client").and_then(list_of_strs).and_then(|l| match l.len() {
        2 => Some((lossy(&l[0]), lossy(&l[1]), None)),
        3 => Some((lossy(&l[0]), lossy(&l[1]), Some(lossy(&l[2])))),
        _ => None,
    });
    cmp!(client_info, exp_client, "client_info");

    let e_udp4s = exp_ip4.zip(exp_udp4);
    let e_tcp4s = exp_ip4.zip(exp_tcp4);
    let e_udp6s = exp_ip6.zip(exp_udp6).map(|(a, p)| (a, p, 0u32, 0u32));
    let e_tcp6s = exp_ip6.zip(exp_tcp6).map(|(a, p)| (a, p, 0u32, 0u32));
    cmp!(udp4_socket, e_udp4s, "udp4_socket");
    cmp!(tcp4_socket, e_tcp4s, "tcp4_socket");
    cmp!(udp6_socket, e_udp6s, "udp6_socket");
    cmp!(tcp6_socket, e_tcp6s, "tcp6_socket");
    if let Some(r) = v.udp_reachable {
        if r != (e_udp4s.is_some() || e_udp6s.is_some()) {
            out.push(viol("C14", "C14/accessor/is_udp_reachable", format!("got {r}")));
        }
    }
    if let Some(r) = v.tcp_reachable {
        if r != (e_tcp4s.is_some() || e_tcp6s.is_some()) {
            out.push(viol("C14", "C14/accessor/is_tcp_reachable", format!("got {r}")));
        }
    }
    for p in &v.probes {
        // only values that are one well-framed item are pinned down
        if !one_item(&p.raw) {
            continue;
        }
        let key = lossy(&p.key);
        if p.get_raw_rlp.as_deref() != Some(p.raw.as_slice()) {
            out.push(viol("C14", "C14/get_raw_rlp", format!("key {key}: get_raw_rlp differs from iter()")));
        }
        let e16 = port_of(&p.raw);
        if p.dec_u16 != e16 {
            out.push(viol(
                "C14",
                "C14/get_decodable/u16",
                format!("key {key} raw {}: got {:?}, expected {:?}", hex(&p.raw), p.dec_u16, e16),
            ));
        }
        let e64 = str_payload(&p.raw).and_then(|b| rlp::uint_from_payload(b, 8));
        if p.dec_u64 != e64 {
            out.push(viol(
                "C14",
                "C14/get_decodable/u64",
                format!("key {key} raw {}: got {:?}, expected {:?}", hex(&p.raw), p.dec_u64, e64),
            ));
        }
        let eb = str_payload(&p.raw).map(<[u8]>::to_vec);
        if p.dec_bytes != eb {
            out.push(viol(
                "C14",
                "C14/get_decodable/Bytes",
                format!("key {key} raw {}", hex(&p.raw)),
            ));
        }
        let el = list_of_strs(&p.raw);
        if p.dec_list != el {
            out.push(viol(
                "C14",
                "C14/get_decodable/Vec<Bytes>",
                format!("key {key} raw {}", hex(&p.raw)),
            ));
        }
        if let Some(g) = &p.dep_get {
            let it = rlp::parse_item(&p.raw).ok();
            let exp = it.map(|i| i.payload.to_vec());
            if *g != exp {
                out.push(viol("C14", "C14/get(deprecated)", format!("key {key} raw {}", hex(&p.raw))));
            }
        }
    }
    if !v.absent_probe_none {
        out.push(viol("C14", "C14/absent-key", "an absent key did not read as None"));
    }
    if let Some(ii) = &v.into_iter_pairs {
        if *ii != v.pairs {
            out.push(viol("C14", "C14/into_iter", "into_iter() differs from iter()"));
        }
    }
}

/// C09 (record-local part): size() exact, never above 300.
pub fn check_c09_record(v: &View, origin: &str, out: &mut Vec<Violation>) {
    if let Some(s) = v.size {
        if s != v.encoded.len() {
            out.push(viol(
                "C09",
                "C09/size()-inexact",
                format!("size() = {s}, encoding is {} bytes", v.encoded.len()),
            ));
        }
    }
    if let Some(l) = v.enc_length {
        if l != v.encoded.len() {
            out.push(viol(
                "C04",
                "C04/Encodable::length()-inexact",
                format!("length() = {l}, encoding is {} bytes: a list of records would be framed wrongly", v.encoded.len()),
            ));
        }
    }
    if v.encoded.len() > refrec::MAX {
        out.push(viol(
            "C09",
            format!("C09/over-300/{origin}"),
            format!("{origin} record encodes to {} bytes", v.encoded.len()),
        ));
    }
}

/// C10: node id = keccak256(public key in the content), = id derived from public_key().
pub fn check_c10(v: &View, rcx: &RecCtx, out: &mut Vec<Violation>) {
    let lib = rcx.dec.judge_lib();
    let Some((kind, pk)) = ref_pk_of(v, rcx.dec, lib) else {
        if rcx.in_scope {
            out.push(viol(
                "C10",
                format!("C10/no-key-entry/{}", rcx.origin),
                "record has no public-key entry of its key type",
            ));
        }
        return;
    };
    if kind == PkKind::Secp && pk.len() != 33 {
        return; // 65-byte keys are outside the property
    }
    if kind == PkKind::Ed && rc::ed_pk_class(&pk) == rc::EdPkClass::Invalid {
        return;
    }
    let Some(exp) = refrec::node_id_of(kind, &pk, lib) else {
        if rcx.in_scope {
            out.push(viol(
                "C10",
                format!("C10/key-entry-invalid/{}", rcx.origin),
                format!("key entry {} is not a valid key", hex(&pk)),
            ));
        }
        return;
    };
    if v.node_id != exp {
        out.push(viol(
            "C10",
            format!("C10/node-id-not-hash-of-content-key/{}", rcx.origin),
            format!("node_id {} expected {}", hex(&v.node_id), hex(&exp)),
        ));
    }
    if let Some(n) = v.node_id_from_pk {
        if n != v.node_id {
            out.push(viol(
                "C10",
                format!("C10/node-id-vs-public_key()/{}", rcx.origin),
                format!("NodeId::from(public_key()) = {}, node_id() = {}", hex(&n), hex(&v.node_id)),
            ));
        }
    }
    if let Some(n) = v.node_id_from_ref {
        if n != v.node_id {
            out.push(viol("C10", "C10/NodeId::from(&enr)", "differs from node_id()"));
        }
    }
    if let Some(p) = &v.pk_enc {
        if *p != pk && pk.len() != 65 {
            out.push(viol(
                "C10",
                format!("C10/public_key()-vs-content/{}", rcx.origin),
                format!("public_key().encode() = {}, content has {}", hex(p), hex(&pk)),
            ));
        }
    }
}

fn lite_same(l: &Lite, v: &View) -> Option<&'static str> {
    if l.seq != v.seq {
        return Some("seq");
    }
    if l.node_id != v.node_id {
        return Some("node_id");
    }
    if l.sig != v.sig {
        return Some("signature");
    }
    if l.pairs != v.pairs {
        return Some("pairs");
    }
    if l.encoded != v.encoded {
        return Some("encoding");
    }
    if l.pk_enc != v.pk_enc {
        return Some("public_key");
    }
    if !l.eq_orig || !l.eq_orig_rev {
        return Some("==");
    }
    if l.hash != v.hash {
        return Some("hash");
    }
    if l.verify != Some(true) {
        return Some("verify");
    }
    None
}

/// C04 (every record encodes to bytes / text / JSON that decode back to an equal record) and
/// C12 (the text forms are exactly T(r)). Needs a deep view.
pub fn check_c04_c12(v: &View, rcx: &RecCtx, out: &mut Vec<Violation>) {
    if !v.deep || !rcx.in_scope {
        return;
    }
    let origin = rcx.origin;
    let forms: [(&str, &Option<Option<Lite>>); 7] = [
        ("bytes", &v.rt_bytes),
        ("text", &v.rt_text),
        ("text-noprefix", &v.rt_text_noprefix),
        ("json", &v.rt_json),
        ("json-value", &v.rt_json_value),
        ("json-reader", &v.rt_json_reader),
        ("json-escaped", &v.rt_json_escaped),
    ];
    for (name, rt) in forms {
        // the text and JSON forms are also C12's business (parsing them returns an equal record)
        let prop = if name.starts_with("text") || name.starts_with("json") { "C12" } else { "C04" };
        match rt {
            None => {} // panicked: C03's business
            Some(None) => {
                out.push(viol("C04", format!("C04/roundtrip-rejected/{name}/{origin}"),
                    format!("{origin} record does not decode back from its {name} form: {}", hex(&v.encoded))));
                if prop == "C12" {
                    out.push(viol("C12", format!("C12/own-text-rejected/{name}"),
                        format!("{}", v.base64.clone().unwrap_or_default())));
                }
            }
            Some(Some(l)) => {
                if let Some(f) = lite_same(l, v) {
                    out.push(viol("C04", format!("C04/roundtrip-differs/{name}/{f}/{origin}"),
                        format!("{origin} record {} differs in {f} after {name} round trip", hex(&v.encoded))));
                    if prop == "C12" {
                        out.push(viol("C12", format!("C12/text-roundtrip-differs/{name}/{f}"), String::new()));
                    }
                }
            }
        }
    }
    if let Some(c) = v.rt_bytes_consumed {
        if matches!(v.rt_bytes, Some(Some(_))) && c != v.encoded.len() {
            out.push(viol("C04", "C04/roundtrip-consumed", format!("decode consumed {c} of {}", v.encoded.len())));
        }
    }
    // C12: canonical text
    let t = reftext::text_form(&v.encoded);
    if let Some(b) = &v.base64 {
        if *b != t {
            out.push(viol("C12", "C12/to_base64-not-canonical", format!("got {b} expected {t}")));
        }
    }
    if let Some(d) = &v.display {
        if *d != t {
            out.push(viol("C12", "C12/Display-not-canonical", format!("got {d} expected {t}")));
        }
    }
    match &v.json {
        Some(Some(j)) => {
            if *j != format!("\"{t}\"") {
                out.push(viol("C12", "C12/json-not-canonical", format!("got {j}")));
            }
        }
        Some(None) => out.push(viol("C12", "C12/json-serialise-failed", String::new())),
        None => {}
    }
}

/// C05 record-local part: verifies, id v4, node id, <= 300, accepted again by the decoder
/// (the library's and the reference one).
pub fn check_c05_record(v: &View, rcx: &RecCtx, out: &mut Vec<Violation>) {
    if !rcx.in_scope {
        return;
    }
    let o = rcx.origin;
    match v.verify {
        Some(true) => {}
        Some(false) => out.push(viol("C05", format!("C05/verify-false/{o}"),
            format!("{o} record does not verify: {}", hex(&v.encoded)))),
        None => {}
    }
    if let Some(id) = &v.id {
        if id.as_deref() != Some("v4") {
            out.push(viol("C05", format!("C05/id-not-v4/{o}"), format!("id() = {id:?}")));
        }
    }
    if v.encoded.len() > refrec::MAX {
        out.push(viol("C05", format!("C05/over-300/{o}"), format!("{} bytes", v.encoded.len())));
    }
    if v.deep {
        match &v.rt_bytes {
            Some(None) => out.push(viol("C05", format!("C05/not-accepted-again/{o}"),
                format!("decode(encode(r)) fails for {}", hex(&v.encoded)))),
            Some(Some(l)) if !l.eq_orig => out.push(viol("C05", format!("C05/decode-image-unequal/{o}"), String::new())),
            _ => {}
        }
    }
    // the independent decoder must accept it too and see the same fields
    let lib = rcx.dec.judge_lib();
    match refrec::parse(&v.encoded, rcx.dec.scheme(), lib) {
        Verdict::Accept(f) => {
            if f.total_len != v.encoded.len() {
                out.push(viol("C05", format!("C05/ref-trailing/{o}"), String::new()));
            }
            if f.node_id != v.node_id {
                out.push(viol("C05", format!("C05/node-id-not-hash-of-key/{o}"),
                    format!("node_id {} expected {}", hex(&v.node_id), hex(&f.node_id))));
            }
            if f.seq != v.seq || f.pairs != v.pairs || f.sig != v.sig {
                out.push(viol("C05", format!("C05/encoding-vs-fields/{o}"), "reference parse of the encoding reports other fields".to_string()));
            }
        }
        Verdict::Reject(why) => out.push(viol("C05", format!("C05/ref-decoder-rejects/{o}/{}", why.replace(' ', "-")),
            format!("{o} record {} rejected by the reference decoder: {why}", hex(&v.encoded)))),
        Verdict::Excluded(_) => {}
    }
}

/// Everything record-local at once.
pub fn check_view(v: &View, rcx: &RecCtx, out: &mut Vec<Violation>) {
    check_c09_record(v, rcx.origin, out);
    check_c14(v, out);
    if rcx.in_scope {
        check_c10(v, rcx, out);
    }
    check_c05_record(v, rcx, out);
    check_c04_c12(v, rcx, out);
    // C15: a record equals its decode-after-encode image (and hashes like it)
    if rcx.in_scope {
        if v.deep && matches!(v.rt_bytes, Some(None)) {
            out.push(viol("C15", "C15/no-decode-after-encode-image",
                format!("{} record {} has no decode-after-encode image to be equal to: its own encoding is rejected", rcx.origin, hex(&v.encoded))));
        }
        for (name, rt) in [("bytes", &v.rt_bytes), ("text", &v.rt_text), ("json", &v.rt_json)] {
            if let Some(Some(l)) = rt {
                if !l.eq_orig || !l.eq_orig_rev {
                    out.push(viol("C15", format!("C15/decode-image-unequal/{name}"),
                        format!("{} record {} is not == to its decode-after-encode image", rcx.origin, hex(&v.encoded))));
                } else if l.hash != v.hash {
                    out.push(viol("C15", format!("C15/decode-image-hash-differs/{name}"), hex(&v.encoded)));
                }
            }
        }
    }
    if !v.eq_self {
        out.push(viol("C15", "C15/not-reflexive", String::new()));
    }
    if !v.clone_ok {
        out.push(viol("C15", "C15/clone-unequal", String::new()));
    }
    if v.cmp_content_self == Some(false) {
        out.push(viol("C15", "C15/compare_content-not-reflexive", String::new()));
    }
}
