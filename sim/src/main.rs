//! enrsim — deterministic simulation with fault injection for the `enr` crate.
//!
//!   enrsim check  --prop C05 --tier quick|thorough [--seed N] [--runs N] [--workers N]
//!                 --part <file.json> --replay-dir <dir> [--known <file.json>]
//!   enrsim replay <file.json>
//!   enrsim selftest
//!
//! exit 0: property held on everything explored; 1: violation (VIOLATION line printed);
//! 2: harness error (nondeterminism, bad arguments, bad replay file); 3: watchdog (hang).

mod battery;
mod byz;
mod ctx;
mod gen;
mod guard;
mod keys;
mod ops;
mod owner;
mod recv;
mod refcrypto;
mod refrec;
mod refrlp;
mod reftext;
mod rng;
mod run;
mod view;
mod wire;
mod workloads;
mod world;

use battery::Violation;
use run::{RunResult, Trace};
use serde_json::json;
use std::collections::{BTreeMap, BTreeSet};
use std::io::Write;
use std::sync::atomic::{AtomicU64, AtomicUsize, Ordering};
use std::sync::{Arc, Mutex};
use std::time::Instant;

const DEFAULT_SEED: u64 = 20_260_926;

struct Args {
    prop: String,
    thorough: bool,
    seed: u64,
    runs: Option<usize>,
    workers: usize,
    part: Option<String>,
    replay_dir: String,
    known: Option<String>,
    dump_hashes: Option<String>,
    /// a reduced batch (a third of the seeded runs, a tenth of the labelled workload, a third of the
    /// enumerated histories): used by the quick tier for the `combined` flavour
    light: bool,
}

fn parse_args(a: &[String]) -> Result<Args, String> {
    let mut args = Args {
        prop: String::new(),
        thorough: false,
        seed: DEFAULT_SEED,
        runs: None,
        workers: 16,
        part: None,
        replay_dir: "/verif/replays".into(),
        known: None,
        dump_hashes: None,
        light: false,
    };
    let mut i = 0;
    while i < a.len() {
        let need = |i: usize| a.get(i + 1).cloned().ok_or_else(|| format!("{} needs a value", a[i]));
        match a[i].as_str() {
            "--prop" => args.prop = need(i)?,
            "--tier" => args.thorough = need(i)? == "thorough",
            "--seed" => args.seed = need(i)?.parse().map_err(|e| format!("--seed: {e}"))?,
            "--runs" => args.runs = Some(need(i)?.parse().map_err(|e| format!("--runs: {e}"))?),
            "--workers" => args.workers = need(i)?.parse().map_err(|e| format!("--workers: {e}"))?,
            "--part" => args.part = Some(need(i)?),
            "--replay-dir" => args.replay_dir = need(i)?,
            "--known" => args.known = Some(need(i)?),
            "--dump-hashes" => args.dump_hashes = Some(need(i)?),
            "--light" => {
                args.light = true;
                i += 1;
                continue;
            }
            x => return Err(format!("unknown argument {x}")),
        }
        i += 2;
    }
    if args.prop.is_empty() {
        return Err("--prop is required".into());
    }
    Ok(args)
}

#[derive(Clone, Debug)]
struct Known {
    status: String,
    property: String,
    fingerprint: String,
    what: String,
}

fn load_known(path: Option<&str>) -> Vec<Known> {
    let Some(p) = path else { return vec![] };
    let Ok(s) = std::fs::read_to_string(p) else { return vec![] };
    let Ok(v) = serde_json::from_str::<serde_json::Value>(&s) else {
        eprintln!("harness error: {p} is not valid JSON");
        std::process::exit(2);
    };
    let mut out = Vec::new();
    if let Some(arr) = v.get("findings").and_then(|f| f.as_array()) {
        for f in arr {
            out.push(Known {
                status: f["status"].as_str().unwrap_or("").to_string(),
                property: f["property"].as_str().unwrap_or("").to_string(),
                fingerprint: f["fingerprint"].as_str().unwrap_or("").to_string(),
                what: f["what"].as_str().unwrap_or("").to_string(),
            });
        }
    }
    out
}

fn known_open<'a>(known: &'a [Known], v: &Violation) -> Option<&'a Known> {
    known.iter().find(|k| {
        k.status == "open"
            && k.property == v.prop
            && glob(&k.fingerprint, &v.check)
    })
}

/// `*` matches any run of characters; everything else is literal.
fn glob(pat: &str, s: &str) -> bool {
    let parts: Vec<&str> = pat.split('*').collect();
    if parts.len() == 1 {
        return pat == s;
    }
    let mut rest = s;
    for (i, p) in parts.iter().enumerate() {
        if i == 0 {
            if !rest.starts_with(p) {
                return false;
            }
            rest = &rest[p.len()..];
        } else if i + 1 == parts.len() {
            return rest.ends_with(p);
        } else {
            match rest.find(p) {
                Some(at) => rest = &rest[at + p.len()..],
                None => return false,
            }
        }
    }
    true
}

/// One unit of work: a seeded run, or a labelled workload item.
#[derive(Clone)]
enum Job {
    Seeded(u64),
    /// re-execution of a seeded run with the at-th signing call of (node, slot 0) failing
    SignerFault { base: Arc<Trace>, node: u8, slot: u8, at: u64 },
    Workload(workloads::Item),
}

impl std::fmt::Debug for Job {
    fn fmt(&self, f: &mut std::fmt::Formatter) -> std::fmt::Result {
        match self {
            Job::Seeded(s) => write!(f, "Seeded({s})"),
            Job::SignerFault { base, node, slot, at } => {
                write!(f, "SignerFault {{ seed: {}, node: {node}, slot: {slot}, at: {at} }}", base.seed)
            }
            Job::Workload(i) => write!(f, "Workload({i:?})"),
        }
    }
}

struct JobOut {
    trace: Trace,
    res: RunResult,
}

fn run_job(prop: &str, thorough: bool, job: &Job, keep_log: bool) -> JobOut {
    match job {
        Job::Seeded(seed) => {
            let (trace, res) = run::run_seeded(prop, *seed, thorough, keep_log);
            JobOut { trace, res }
        }
        Job::SignerFault { base, node, slot, at } => {
            let mut trace: Trace = (**base).clone();
            trace.events.insert(0, world::Event::ArmAbs { node: *node, slot: *slot, at: *at });
            trace.workload = "signer-fault-enumeration".into();
            let res = run::exec(&trace.nodes, &trace.events, trace.seed, prop, keep_log).expect("same set-up");
            JobOut { trace, res }
        }
        Job::Workload(item) => {
            let trace = workloads::trace_for(prop, item);
            let res = run::exec(&trace.nodes, &trace.events, trace.seed, prop, keep_log).expect("workload set-up");
            JobOut { trace, res }
        }
    }
}

struct Merged {
    evaluations: u64,
    steps: u64,
    stats: BTreeMap<String, u64>,
    transitions: BTreeSet<String>,
    /// fingerprint -> first (job index, trace, violation)
    firsts: BTreeMap<String, (usize, Trace, Violation)>,
    viol_count: u64,
    samples: Vec<serde_json::Value>,
    hashes: Vec<(usize, u64)>,
}

fn run_parallel(prop: &str, thorough: bool, jobs: &[Job], workers: usize, journal_dir: &str, want_hashes: bool) -> Merged {
    let next = Arc::new(AtomicUsize::new(0));
    let merged = Arc::new(Mutex::new(Merged {
        evaluations: 0,
        steps: 0,
        stats: BTreeMap::new(),
        transitions: BTreeSet::new(),
        firsts: BTreeMap::new(),
        viol_count: 0,
        samples: Vec::new(),
        hashes: Vec::new(),
    }));
    // watchdog: per worker, the start time (ms since t0) of the run in flight, 0 = idle
    let t0 = Instant::now();
    let inflight: Arc<Vec<AtomicU64>> = Arc::new((0..workers).map(|_| AtomicU64::new(0)).collect());
    let inflight_job: Arc<Vec<AtomicUsize>> = Arc::new((0..workers).map(|_| AtomicUsize::new(0)).collect());
    let done_flag = Arc::new(AtomicUsize::new(0));
    {
        let inflight = inflight.clone();
        let inflight_job = inflight_job.clone();
        let done_flag = done_flag.clone();
        let jobs_dbg: Vec<String> = jobs.iter().map(|j| format!("{j:?}")).collect();
        let prop = prop.to_string();
        std::thread::spawn(move || loop {
            std::thread::sleep(std::time::Duration::from_millis(500));
            if done_flag.load(Ordering::SeqCst) == 1 {
                return;
            }
            let now = t0.elapsed().as_millis() as u64;
            for (w, s) in inflight.iter().enumerate() {
                let st = s.load(Ordering::SeqCst);
                if st != 0 && now.saturating_sub(st) > 60_000 {
                    let j = inflight_job[w].load(Ordering::SeqCst);
                    println!("HANG property={prop} job={}", jobs_dbg.get(j).cloned().unwrap_or_default());
                    std::process::exit(3);
                }
            }
        });
    }
    let mut handles = Vec::new();
    for wk in 0..workers {
        let next = next.clone();
        let merged = merged.clone();
        let jobs = jobs.to_vec();
        let prop = prop.to_string();
        let inflight = inflight.clone();
        let inflight_job = inflight_job.clone();
        let jpath = format!("{journal_dir}/.journal-{}-{wk}", std::process::id());
        handles.push(std::thread::Builder::new().stack_size(16 << 20).spawn(move || {
            let mut journal = std::fs::File::create(&jpath).ok();
            loop {
                let i = next.fetch_add(1, Ordering::SeqCst);
                if i >= jobs.len() {
                    break;
                }
                if let Some(j) = journal.as_mut() {
                    let _ = writeln!(j, "start {i} {:?}", jobs[i]);
                }
                inflight_job[wk].store(i, Ordering::SeqCst);
                inflight[wk].store(t0.elapsed().as_millis() as u64 + 1, Ordering::SeqCst);
                // every job runs on a thread of its own: thread-local state inside the library (or its
                // dependencies) cannot leak from one run into the next, so one seed stays one execution
                let out = std::thread::scope(|sc| {
                    std::thread::Builder::new()
                        .stack_size(16 << 20)
                        .spawn_scoped(sc, || run_job(&prop, thorough, &jobs[i], false))
                        .expect("spawn")
                        .join()
                });
                inflight[wk].store(0, Ordering::SeqCst);
                if let Some(j) = journal.as_mut() {
                    let _ = writeln!(j, "done {i}");
                }
                let out = match out {
                    Ok(o) => o,
                    Err(_) => {
                        eprintln!("harness error: the simulator itself panicked on job {:?}: {}", jobs[i], guard::last_panic());
                        std::process::exit(2);
                    }
                };
                let mut m = merged.lock().unwrap();
                m.evaluations += 1;
                m.steps += out.res.steps;
                for (k, v) in &out.res.stats {
                    *m.stats.entry(k.clone()).or_insert(0) += v;
                }
                for t in &out.res.transitions {
                    if !m.transitions.contains(t) {
                        m.transitions.insert(t.clone());
                    }
                }
                if want_hashes {
                    m.hashes.push((i, out.res.log_hash));
                }
                if m.samples.len() < 3 && i < 3 {
                    let evs: Vec<serde_json::Value> = out.trace.events.iter().take(6).map(|e| serde_json::to_value(e).unwrap_or_default()).collect();
                    m.samples.push(json!({"job": format!("{:?}", jobs[i]), "nodes": out.trace.nodes, "first_events": evs, "events_total": out.trace.events.len()}));
                }
                for v in out.res.viols.iter().filter(|v| v.prop == prop) {
                    m.viol_count += 1;
                    let better = match m.firsts.get(&v.check) {
                        None => true,
                        Some((j, t, _)) => i < *j || (i == *j && out.trace.events.len() < t.events.len()),
                    };
                    if better {
                        m.firsts.insert(v.check.clone(), (i, out.trace.clone(), v.clone()));
                    }
                }
            }
            let _ = std::fs::remove_file(&jpath);
        }).expect("spawn"));
    }
    for h in handles {
        let _ = h.join();
    }
    done_flag.store(1, Ordering::SeqCst);
    Arc::try_unwrap(merged).ok().expect("workers joined").into_inner().unwrap()
}

fn fnv(s: &str) -> u64 {
    rng::label(s)
}

fn level_for(prop: &str) -> &'static str {
    match prop {
        "C01" | "C06" | "C13" => "fault_enumeration",
        _ => "exploration",
    }
}

fn cmd_check(a: &[String]) -> i32 {
    let args = match parse_args(a) {
        Ok(x) => x,
        Err(e) => {
            eprintln!("harness error: {e}");
            return 2;
        }
    };
    let known = load_known(args.known.as_deref());
    let prop = args.prop.clone();
    let flav = run::flavour();
    if prop == "C11" && flav == "default" {
        // nothing to compare in a single-back-end build
    }
    let t_start = Instant::now();
    let _ = std::fs::create_dir_all(&args.replay_dir);

    // the job list
    // properties whose receivers run the full round-trip battery on every accepted record cost about
    // three times as much per run
    let heavy = matches!(prop.as_str(), "C03" | "C04" | "C05" | "C12");
    let mut base_runs = args.runs.unwrap_or(if args.thorough { if heavy { 8_000 } else { 20_000 } } else { 1_500 });
    if args.light {
        base_runs = (base_runs / 3).max(1);
    }
    let root = rng::derive(args.seed, &[fnv(&prop), fnv(flav)]);
    let mut jobs: Vec<Job> = (0..base_runs as u64).map(|i| Job::Seeded(rng::derive(root, &[i]))).collect();
    let n_seeded = jobs.len();
    for (k, it) in workloads::items(&prop, args.thorough, root).into_iter().enumerate() {
        if args.light && k % 10 != 0 {
            continue;
        }
        jobs.push(Job::Workload(it));
    }
    let n_workload = jobs.len() - n_seeded;

    // C06: signer-fault enumeration along sampled histories — every signing call of slot 0 of every node
    let mut n_enum = 0usize;
    if prop == "C06" {
        let sample = if args.thorough { 400 } else if args.light { 30 } else { 100 };
        let mut extra = Vec::new();
        for i in 0..sample.min(n_seeded) {
            if let Job::Seeded(seed) = jobs[i] {
                let (trace, res) = run::run_seeded(&prop, seed, args.thorough, false);
                let base = Arc::new(trace);
                for (node, slots) in res.sign_calls.iter().enumerate() {
                    for (slot, calls) in slots.iter().enumerate() {
                        for at in 1..=(*calls).min(60) {
                            extra.push(Job::SignerFault { base: base.clone(), node: node as u8, slot: slot as u8, at });
                        }
                    }
                }
            }
        }
        n_enum = extra.len();
        jobs.extend(extra);
    }

    let mut merged = run_parallel(&prop, args.thorough, &jobs, args.workers, &args.replay_dir, true);

    if let Some(p) = &args.dump_hashes {
        // one line per job: the hash of its complete event + verdict log (signature bytes included)
        let mut hs = merged.hashes.clone();
        hs.sort_unstable();
        let txt: String = hs.iter().map(|(i, h)| format!("{i} {h:016x}\n")).collect();
        let _ = std::fs::write(p, txt);
    }

    // determinism self-check: re-execute a sample on other workers and compare full-log hashes
    let sample_n = (if args.thorough { 512 } else { 32 }).min(jobs.len());
    let stride = (jobs.len() / sample_n.max(1)).max(1);
    let sample_idx: Vec<usize> = (0..sample_n).map(|k| (k * stride + 7 * k) % jobs.len()).collect();
    let sample_jobs: Vec<Job> = sample_idx.iter().map(|i| jobs[*i].clone()).collect();
    let second = run_parallel(&prop, args.thorough, &sample_jobs, (args.workers / 2).max(1) + 1, &args.replay_dir, true);
    let first_hash: BTreeMap<usize, u64> = merged.hashes.iter().copied().collect();
    let mut det_ok = true;
    for (k, h) in &second.hashes {
        let orig = sample_idx[*k];
        if first_hash.get(&orig) != Some(h) {
            det_ok = false;
            eprintln!("harness error: job {:?} is not deterministic (log hash {:x} vs {:x?})", jobs[orig], h, first_hash.get(&orig));
        }
    }
    if !det_ok {
        return 2;
    }

    // violations: minimise, write replay files, confirm in a fresh process
    let mut reported: Vec<(Violation, String)> = Vec::new();
    let mut known_hit: BTreeMap<String, String> = BTreeMap::new();
    let firsts: Vec<(String, (usize, Trace, Violation))> = std::mem::take(&mut merged.firsts).into_iter().collect();
    let exe = std::env::current_exe().ok();
    for (fp, (_, trace, v)) in firsts {
        if let Some(k) = known_open(&known, &v) {
            known_hit.insert(k.fingerprint.clone(), k.what.clone());
            continue;
        }
        let t_min = Instant::now();
        let (mut min, used) = run::minimise(&trace, &prop, &fp, if args.thorough { 3000 } else { 1500 });
        // the detail of the minimised run
        let mut vv = v.clone();
        if let Some(r) = run::exec_isolated(&min.nodes, &min.events, min.seed, &prop, false) {
            if let Some(x) = r.viols.iter().find(|x| x.prop == prop && x.check == fp) {
                vv = x.clone();
            } else {
                min = trace.clone();
                min.note = "minimisation lost the failure; unminimised trace".into();
            }
        }
        min.violation = Some(vv.clone());
        min.note = format!("{} minimised from {} to {} events in {} re-executions, {:.1}s", min.note, trace.events.len(), min.events.len(), used, t_min.elapsed().as_secs_f64());
        let path = format!("{}/{}-{:08x}-{}-{}.json", args.replay_dir, prop, fnv(&fp) as u32, flav, trace.seed);
        if let Ok(s) = serde_json::to_string_pretty(&min) {
            let _ = std::fs::write(&path, s);
        }
        // fresh-process confirmation
        let mut confirmed = true;
        if let Some(exe) = &exe {
            match std::process::Command::new(exe).arg("replay").arg(&path).arg("--quiet").stdout(std::process::Stdio::null()).status() {
                Ok(st) => confirmed = st.code() == Some(1),
                Err(_) => confirmed = false,
            }
        }
        if !confirmed {
            eprintln!("harness error: replay of {path} in a fresh process did not reproduce {fp}");
            return 2;
        }
        reported.push((vv, path));
        if reported.len() >= 12 {
            break;
        }
    }

    let wall = t_start.elapsed().as_secs_f64();
    // evidence part
    let class_hist = |t: &String| -> bool { !(t.contains("/bin/") || t.contains("/text/") || t.contains("/json/") || t.contains("/stream/") || t.contains("/list/")) };
    let wire_prop = matches!(prop.as_str(), "C01" | "C02" | "C11" | "C12" | "C13");
    let both = matches!(prop.as_str(), "C03" | "C04");
    let distinct: Vec<&String> = merged.transitions.iter().filter(|t| both || (wire_prop != class_hist(t))).collect();
    let faults: BTreeMap<&String, &u64> = merged.stats.iter().filter(|(k, _)| k.starts_with("fault:")).collect();
    let probes: BTreeMap<&String, &u64> = merged.stats.iter().filter(|(k, _)| !k.starts_with("fault:") && !k.starts_with("event:")).collect();
    let events: BTreeMap<&String, &u64> = merged.stats.iter().filter(|(k, _)| k.starts_with("event:")).collect();
    let part = json!({
        "property_id": prop,
        "flavour": flav,
        "tier": if args.thorough { "thorough" } else { "quick" },
        "seed": args.seed,
        "level": level_for(&prop),
        "evaluations": merged.evaluations,
        "seeded_runs": n_seeded,
        "workload_items": n_workload,
        "signer_fault_enumeration_runs": n_enum,
        "logical_steps": merged.steps,
        "distinct_transitions": distinct.iter().map(|s| (*s).clone()).collect::<Vec<_>>(),
        "faults_fired": faults,
        "probes": probes,
        "events": events,
        "samples": merged.samples,
        "determinism_selfcheck": {"reexecuted": second.hashes.len(), "mismatches": 0},
        "violations": reported.iter().map(|(v, p)| json!({"check": v.check, "detail": v.detail, "replay": p})).collect::<Vec<_>>(),
        "violation_count_raw": merged.viol_count,
        "known_findings_hit": known_hit,
        "wall_s": wall,
        "runs_per_hour": (merged.evaluations as f64 / wall.max(0.001) * 3600.0) as u64,
        "workers": args.workers,
    });
    if let Some(p) = &args.part {
        if let Some(dir) = std::path::Path::new(p).parent() {
            let _ = std::fs::create_dir_all(dir);
        }
        if std::fs::write(p, serde_json::to_string(&part).unwrap_or_default()).is_err() {
            eprintln!("harness error: cannot write {p}");
            return 2;
        }
    }
    for (fp, what) in &known_hit {
        println!("KNOWN-FINDING: property={prop} {what} [{fp}]");
    }
    println!(
        "enrsim {prop} {flav} {}: {} runs ({} seeded, {} workload, {} signer-fault), {} steps, {} distinct transitions, {:.1}s, {} violation(s)",
        if args.thorough { "thorough" } else { "quick" },
        merged.evaluations, n_seeded, n_workload, n_enum, merged.steps, distinct.len(), wall, reported.len()
    );
    if reported.is_empty() {
        0
    } else {
        for (v, p) in &reported {
            println!("  {} :: {}", v.check, v.detail.chars().take(300).collect::<String>());
            println!("VIOLATION property={prop} replay={p}");
        }
        1
    }
}

fn cmd_replay(a: &[String]) -> i32 {
    let Some(path) = a.first() else {
        eprintln!("harness error: replay needs a file");
        return 2;
    };
    let quiet = a.iter().any(|x| x == "--quiet");
    let Ok(s) = std::fs::read_to_string(path) else {
        eprintln!("harness error: cannot read {path}");
        return 2;
    };
    let t: Trace = match serde_json::from_str(&s) {
        Ok(t) => t,
        Err(e) => {
            eprintln!("harness error: {path}: {e}");
            return 2;
        }
    };
    if t.flavour != run::flavour() {
        eprintln!("harness error: {path} was recorded with flavour {}, this binary is {}", t.flavour, run::flavour());
        return 2;
    }
    let r = if let Some(tier) = t.workload.strip_prefix("seed-only:") {
        // the run is regenerated from its seed (used when the run kills the process)
        run::run_seeded(&t.property, t.seed, tier == "thorough", true).1
    } else {
        let Some(r) = run::exec(&t.nodes, &t.events, t.seed, &t.property, true) else {
            eprintln!("harness error: set-up of {path} needs back-ends this flavour lacks");
            return 2;
        };
        r
    };
    if !quiet {
        for l in &r.log {
            println!("{l}");
        }
    }
    let want = t.violation.as_ref().map(|v| v.check.clone());
    let mut hit = false;
    for v in r.viols.iter().filter(|v| v.prop == t.property) {
        if !quiet {
            println!("violation: {} :: {}", v.check, v.detail);
        }
        if Some(&v.check) == want.as_ref() || want.is_none() {
            hit = true;
        }
    }
    if hit {
        println!("VIOLATION property={} replay={path}", t.property);
        1
    } else {
        if !quiet {
            println!("no violation of {} reproduced (expected {:?})", t.property, want);
        }
        0
    }
}

fn main() {
    guard::install_hook();
    let a: Vec<String> = std::env::args().skip(1).collect();
    let code = match a.first().map(String::as_str) {
        Some("check") => cmd_check(&a[1..]),
        Some("replay") => cmd_replay(&a[1..]),
        Some("selftest") => workloads::selftest(),
        _ => {
            eprintln!("usage: enrsim check|replay|selftest ...");
            2
        }
    };
    std::process::exit(code);
}
