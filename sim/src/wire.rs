//! Oracles over delivered messages: what every receiving key type does with the same bytes / text.

use crate::battery::{check_view, hex, ref_pk_of, viol, RecCtx};
use crate::ctx::Cx;
use crate::guard::take_panics;
use crate::keys::DecType;
use crate::recv::{decode_as, json_as, list_as, parse_as, DecOut};
use crate::refcrypto as rc;
use crate::refrec::{self, PkKind, Scheme, Verdict};
use crate::refrlp as rlp;
use crate::reftext;
use crate::view::View;
use std::collections::BTreeMap;

fn flush_panics(cx: &mut Cx, what: &str) {
    for p in take_panics() {
        let site = p.split(" panicked").next().unwrap_or("?").to_string();
        cx.push(viol("C03", format!("C03/panic/{site}"), format!("{what}: {p}")));
    }
}

/// C01: the signature must be valid, under the key the record carries, over exactly the fields the
/// record reports; and whatever carries an honest key must be something that key signed (ledger).
pub fn check_authentic(v: &View, dec: DecType, how: &str, cx: &mut Cx) {
    cx.stat("c01:accepted-record-judged");
    let lib = dec.judge_lib();
    let d = dec.name();
    if v.verify == Some(false) {
        cx.push(viol("C01", format!("C01/accepted-but-verify-false/{d}"), hex(&v.encoded)));
    }
    let Some((kind, pk)) = ref_pk_of(v, dec, lib) else {
        cx.push(viol("C01", format!("C01/accepted-without-key-entry/{d}"), hex(&v.encoded)));
        return;
    };
    if kind == PkKind::Secp && pk.len() == 65 {
        cx.stat("excluded:65-byte-key");
        return;
    }
    if kind == PkKind::Var {
        // the toy scheme has no security to speak of (anybody can compute its signatures): C01
        // quantifies over the four real key types only
        cx.stat("excluded:toy-scheme-authenticity");
        return;
    }
    if kind == PkKind::Ed && rc::ed_pk_class(&pk) == rc::EdPkClass::Excluded {
        cx.stat("excluded:weak-ed25519-key");
        return;
    }
    let payload = refrec::signed_payload(v.seq, &v.pairs);
    let ok = match kind {
        PkKind::Secp => rc::secp_verify(&pk, &rc::keccak256(&payload), &v.sig, lib),
        PkKind::Ed => rc::ed_verify(&pk, &payload, &v.sig),
        PkKind::Var => crate::keys::var_verify(&pk, &payload, &v.sig),
    };
    if !ok {
        cx.push(viol(
            "C01",
            format!("C01/accepted-with-invalid-signature/{d}/{how}"),
            format!("accepted {} whose signature is not a valid v4 signature by {} over the reported fields", hex(&v.encoded), hex(&pk)),
        ));
    }
    if cx.honest_keys.contains(&pk) && !cx.ledger_has(&pk, &payload, &v.sig) {
        cx.push(viol(
            "C01",
            format!("C01/accepted-what-the-key-never-signed/{d}/{how}"),
            format!("accepted {} carrying honest key {} which never signed this content/signature", hex(&v.encoded), hex(&pk)),
        ));
    }
}

fn same_fields(a: &View, b: &View) -> Option<&'static str> {
    if a.seq != b.seq {
        return Some("seq");
    }
    if a.pairs != b.pairs {
        return Some("pairs");
    }
    if a.sig != b.sig {
        return Some("signature");
    }
    if a.pk_enc != b.pk_enc {
        return Some("public-key-bytes");
    }
    if a.node_id != b.node_id {
        return Some("node-id");
    }
    None
}

/// C11 over the outcomes of all decoder types on one input.
pub fn check_agreement(outs: &BTreeMap<DecType, DecOut>, secp_entry: Option<Vec<u8>>, cx: &mut Cx) {
    let get = |d: DecType| outs.get(&d);
    let cmp = |a: DecType, b: DecType, cx: &mut Cx| {
        let (Some(x), Some(y)) = (get(a), get(b)) else {
            return;
        };
        if x.panicked || y.panicked {
            return;
        }
        cx.stat("c11:verdict-pairs-compared");
        match (&x.view, &y.view) {
            (Some(va), Some(vb)) => {
                cx.stat("c11:both-accept");
                if let Some(f) = same_fields(va, vb) {
                    cx.push(viol("C11", format!("C11/fields-differ/{}-vs-{}/{f}", a.name(), b.name()), hex(&va.encoded)));
                }
            }
            (None, None) => {}
            (Some(v), None) => cx.push(viol("C11", format!("C11/verdicts-differ/{}-accepts/{}-rejects", a.name(), b.name()), hex(&v.encoded))),
            (None, Some(v)) => cx.push(viol("C11", format!("C11/verdicts-differ/{}-accepts/{}-rejects", b.name(), a.name()), hex(&v.encoded))),
        }
    };
    // 65-byte SEC1 keys are outside the property: the back-ends may treat them differently
    if matches!(secp_entry, Some(ref b) if b.len() == 65) {
        cx.stat("excluded:65-byte-key");
        return;
    }
    cmp(DecType::K256, DecType::Libsecp, cx);
    // CombinedKey stands on the secp256k1 entry whenever that is a valid (33-byte) key
    match secp_entry {
        Some(ref b) if b.len() == 65 => cx.stat("excluded:65-byte-key"),
        Some(ref b) if rc::secp_pk_valid33(b, rc::Lib::Libsecp) => {
            cmp(DecType::K256, DecType::Combined, cx);
            cmp(DecType::Libsecp, DecType::Combined, cx);
        }
        _ => cmp(DecType::Ed, DecType::Combined, cx),
    }
}

fn secp_entry_of(buf: &[u8]) -> Option<Vec<u8>> {
    // shallow reference walk of the first item, tolerant: only used to choose the C11 comparison
    let outer = rlp::parse_item(buf).ok()?;
    if !outer.list {
        return None;
    }
    let items = rlp::split_items(outer.payload).ok()?;
    let mut i = 2;
    while i + 1 < items.len() {
        if !items[i].0.list && items[i].0.payload == b"secp256k1" && !items[i + 1].0.list {
            return Some(items[i + 1].0.payload.to_vec());
        }
        i += 2;
    }
    None
}

/// Deliver a binary buffer to every decoder type; evaluates C01, C02, C04, C11, C13 and the battery.
/// `origin_valid`: Some(scheme kinds that must accept) for pristine messages of honest/foreign nodes.
pub fn judge_binary(data: &[u8], how: &str, decs: &[DecType], cx: &mut Cx) -> BTreeMap<DecType, DecOut> {
    let mut outs = BTreeMap::new();
    let first = rlp::parse_item(data).ok().map(|i| i.total_len);
    let exact = first == Some(data.len());
    for &dec in decs {
        let out = decode_as(dec, data, cx.deep_recv);
        flush_panics(cx, &format!("decode[{}] of {}", dec.name(), hex(data)));
        let d = dec.name();
        cx.stat("delivered:binary");
        cx.log(&format!("deliver bin {} -> {}", d, if out.panicked { "panic" } else if out.view.is_some() { "accept" } else { "reject" }));
        if out.panicked {
            outs.insert(dec, out);
            continue;
        }
        let r2 = refrec::parse(data, dec.scheme(), dec.judge_lib());
        cx.trans(format!("{d}/bin/{how}/ref={}/lib={}", r2.tag(), if out.view.is_some() { "accept" } else { "reject" }));
        if exact {
            cx.stat("c02:verdicts-compared");
            match (&r2, &out.view) {
                (Verdict::Excluded(w), _) => cx.stat(&format!("excluded:{w}")),
                (Verdict::Accept(_), None) => cx.push(viol("C02", format!("C02/false-reject/{d}"),
                    format!("well-formed record rejected by {d}: {}", hex(data)))),
                (Verdict::Reject(why), Some(_)) => cx.push(viol("C02", format!("C02/false-accept/{d}/{}", why.replace(' ', "-")),
                    format!("{d} accepted {} although: {why}", hex(data)))),
                _ => {}
            }
        } else if let Some(n) = first {
            // C13: same outcome as the item alone
            cx.stat("c13:suffix-cases");
            let alone = decode_as(dec, &data[..n], false);
            flush_panics(cx, "decode of the item alone");
            if alone.panicked {
                // a panic is an outcome too: with the suffix the same item returned normally
                cx.push(viol("C13", format!("C13/outcome-depends-on-suffix/{d}/item-panics-alone"),
                    format!("item {} panics when decoded alone but returns normally when followed by {} bytes", hex(&data[..n]), data.len() - n)));
            }
            if !alone.panicked {
                match (&alone.view, &out.view) {
                    (Some(a), Some(b)) => {
                        if let Some(f) = same_fields(a, b) {
                            cx.push(viol("C13", format!("C13/fields-depend-on-suffix/{d}/{f}"), hex(data)));
                        }
                        if out.consumed != n {
                            cx.push(viol("C13", format!("C13/consumed/{d}"), format!("advanced by {} instead of {n}", out.consumed)));
                        }
                    }
                    (None, None) => {
                        // the same item fails the same way whatever follows it
                        if alone.err != out.err {
                            cx.push(viol("C13", format!("C13/error-depends-on-suffix/{d}"),
                                format!("item {} alone fails with {:?}, followed by {} bytes with {:?}", hex(&data[..n]), alone.err, data.len() - n, out.err)));
                        }
                    }
                    (Some(_), None) => cx.push(viol("C13", format!("C13/outcome-depends-on-suffix/{d}/item-accepted-alone"),
                        format!("item of {n} bytes accepted alone, rejected when followed by {} bytes: {}", data.len() - n, hex(data)))),
                    (None, Some(_)) => cx.push(viol("C13", format!("C13/outcome-depends-on-suffix/{d}/item-rejected-alone"), hex(data))),
                }
            }
        } else if out.view.is_some() {
            cx.push(viol("C02", format!("C02/false-accept/{d}/no-complete-item"), hex(data)));
        }
        if let Some(v) = &out.view {
            cx.stat(&format!("c14:presence-mask:{:02x}", crate::owner::presence_mask(v)));
            check_authentic(v, dec, how, cx);
            // C01: the signature binds the record's bytes: an accepted input that is not the
            // encoding of the fields it reports is an accepted alteration of a signed record
            if v.encoded.as_slice() != &data[..out.consumed.min(data.len())] {
                cx.push(viol("C01", format!("C01/accepted-input-is-not-what-was-signed/{d}/{how}"),
                    format!("accepted {} but the record it reports encodes to {}", hex(&data[..out.consumed.min(data.len())]), hex(&v.encoded))));
            }
            // C04 receiver side
            cx.stat("c04:accepted-input-compared");
            if v.encoded.as_slice() != &data[..out.consumed.min(data.len())] {
                cx.push(viol("C04", format!("C04/reencode-differs-from-input/{d}"),
                    format!("input {} re-encodes to {}", hex(&data[..out.consumed.min(data.len())]), hex(&v.encoded))));
            }
            if let Verdict::Accept(f) = &r2 {
                let diff = if f.seq != v.seq { Some("seq") }
                    else if f.pairs != v.pairs { Some("pairs") }
                    else if f.sig != v.sig { Some("signature") }
                    else if v.pk_enc.as_deref() != Some(f.pk_bytes.as_slice()) && v.pk_enc.is_some() { Some("public-key") }
                    else if f.node_id != v.node_id { Some("node-id") }
                    else { None };
                if let Some(x) = diff {
                    let prop = if x == "seq" { "C07" } else { "C04" };
                    cx.push(viol(prop, format!("{prop}/decoded-field-differs-from-independent-parse/{d}/{x}"), hex(data)));
                }
                if out.consumed != f.total_len {
                    cx.push(viol("C13", format!("C13/consumed/{d}"), format!("advanced by {} instead of {}", out.consumed, f.total_len)));
                }
            }
            let mut o = Vec::new();
            check_view(v, &RecCtx { origin: "decoded", dec, in_scope: true }, &mut o);
            cx.extend(o);
        }
        outs.insert(dec, out);
    }
    check_agreement(&outs, secp_entry_of(data), cx);
    outs
}

/// JSON string content, if `j` is a plain JSON string without escapes.
fn json_plain_string(j: &str) -> Option<&str> {
    let b = j.as_bytes();
    if b.len() >= 2 && b[0] == b'"' && b[b.len() - 1] == b'"' {
        let inner = &j[1..j.len() - 1];
        if !inner.contains('\\') && !inner.contains('"') {
            return Some(inner);
        }
    }
    None
}

/// Deliver a text (form 1) or JSON (form 2) message.
pub fn judge_text(s: &str, json: bool, how: &str, decs: &[DecType], cx: &mut Cx) -> BTreeMap<DecType, DecOut> {
    let mut outs = BTreeMap::new();
    let mut bytes_for_c11: Option<Vec<u8>> = None;
    for &dec in decs {
        let out = if json { json_as(dec, s, cx.deep_recv) } else { parse_as(dec, s, cx.deep_recv) };
        flush_panics(cx, &format!("{}[{}] of {s:?}", if json { "json" } else { "parse" }, dec.name()));
        let d = dec.name();
        cx.stat(if json { "delivered:json" } else { "delivered:text" });
        cx.log(&format!("deliver {} {} -> {}", if json { "json" } else { "text" }, d, if out.panicked { "panic" } else if out.view.is_some() { "accept" } else { "reject" }));
        cx.trans(format!("{d}/{}/{how}/{}", if json { "json" } else { "text" }, if out.view.is_some() { "accept" } else { "reject" }));
        if let Some(v) = &out.view {
            cx.stat("c12:accepted-text-judged");
            let t = reftext::text_form(&v.encoded);
            let content: Option<&str> = if json { json_plain_string(s) } else { Some(s) };
            match content {
                None => cx.stat("excluded:json-with-escapes"),
                Some(c) => {
                    if c != t && c != &t[4..] {
                        let class = classify_text(c, &t);
                        cx.push(viol("C12", format!("C12/non-canonical-text-accepted/{}/{class}", if json { "json" } else { "text" }),
                            format!("{d} parsed {c:?} to the record whose text form is {t:?}")));
                    }
                }
            }
            check_authentic(v, dec, how, cx);
            let mut o = Vec::new();
            check_view(v, &RecCtx { origin: "decoded", dec, in_scope: true }, &mut o);
            cx.extend(o);
            bytes_for_c11 = Some(v.encoded.clone());
        }
        outs.insert(dec, out);
    }
    // choose the C11 comparison from the decoded base64, if it decodes
    let inner = if json { json_plain_string(s).unwrap_or("") } else { s };
    let b64 = inner.strip_prefix("enr:").unwrap_or(inner);
    let raw = reftext::b64url_decode_strict(b64).or(bytes_for_c11);
    check_agreement(&outs, raw.as_deref().and_then(secp_entry_of), cx);
    outs
}

fn classify_text(c: &str, t: &str) -> &'static str {
    let body = c.strip_prefix("enr:").unwrap_or(c);
    if c.contains('=') {
        "padding"
    } else if c.chars().any(char::is_whitespace) {
        "whitespace"
    } else if c.contains('+') || c.contains('/') {
        "standard-alphabet"
    } else if c.len() > 4 && c[..4].eq_ignore_ascii_case("enr:") && !c.starts_with("enr:") {
        "prefix-case"
    } else if let Some(dec) = reftext::b64url_decode_strict(body) {
        let tb = reftext::b64url_decode_strict(&t[4..]).unwrap_or_default();
        if dec.len() > tb.len() && dec.starts_with(&tb) {
            "bytes-after-the-record"
        } else {
            "other-bytes"
        }
    } else if body.len() == t.len() - 4 {
        "trailing-bits"
    } else {
        "other"
    }
}

/// C13 on framed transmissions: a stream of records back to back, or one RLP list of records.
/// `items` are the individual frames (valid and invalid mixed).
pub fn judge_stream(items: &[Vec<u8>], suffix: &[u8], dec: DecType, cx: &mut Cx) {
    let d = dec.name();
    let mut buf: Vec<u8> = Vec::new();
    for i in items {
        buf.extend_from_slice(i);
    }
    buf.extend_from_slice(suffix);
    // individually
    let alone: Vec<DecOut> = items.iter().map(|i| decode_as(dec, i, false)).collect();
    flush_panics(cx, "decode of single frames");
    // looping decode over the coalesced buffer, the way a stream reader does
    let mut pos = 0usize;
    for (idx, it) in items.iter().enumerate() {
        cx.stat("c13:stream-frames");
        let complete = rlp::parse_item(it).map(|p| p.total_len == it.len()).unwrap_or(false);
        if !complete {
            break; // a torn frame: what follows is no longer "a buffer that begins with a complete item"
        }
        let out = decode_as(dec, &buf[pos..], false);
        flush_panics(cx, &format!("decode[{d}] in stream at {pos} of {}", hex(&buf)));
        if out.panicked != alone[idx].panicked {
            cx.push(viol("C13", format!("C13/outcome-depends-on-suffix/{d}/{}", if out.panicked { "panics-in-stream" } else { "item-panics-alone" }),
                format!("frame {idx} {} : panic alone = {}, panic in the stream = {}", hex(it), alone[idx].panicked, out.panicked)));
        }
        if out.panicked || alone[idx].panicked {
            break;
        }
        cx.trans(format!("{d}/stream/{}/{}", if alone[idx].view.is_some() { "valid" } else { "invalid" }, if out.view.is_some() { "accept" } else { "reject" }));
        match (&alone[idx].view, &out.view) {
            (Some(a), Some(b)) => {
                if let Some(f) = same_fields(a, b) {
                    cx.push(viol("C13", format!("C13/fields-depend-on-suffix/{d}/{f}"), hex(&buf[pos..])));
                }
                if out.consumed != it.len() {
                    cx.push(viol("C13", format!("C13/consumed/{d}"), format!("frame {idx}: advanced by {} instead of {}", out.consumed, it.len())));
                    break;
                }
            }
            (None, None) => {
                if alone[idx].err != out.err {
                    cx.push(viol("C13", format!("C13/error-depends-on-suffix/{d}"),
                        format!("frame {idx} {} alone fails with {:?}, in the stream with {:?}", hex(it), alone[idx].err, out.err)));
                }
            }
            (Some(_), None) => {
                cx.push(viol("C13", format!("C13/outcome-depends-on-suffix/{d}/item-accepted-alone"),
                    format!("frame {idx} ({} bytes) accepted alone but rejected with {} bytes following: {}", it.len(), buf.len() - pos - it.len(), hex(&buf[pos..]))));
            }
            (None, Some(_)) => {
                cx.push(viol("C13", format!("C13/outcome-depends-on-suffix/{d}/item-rejected-alone"), hex(&buf[pos..])));
            }
        }
        // a reader that got an error skips the frame by its RLP length
        pos += it.len();
    }
}

pub fn judge_list(items: &[Vec<u8>], suffix: &[u8], dec: DecType, cx: &mut Cx) {
    let d = dec.name();
    let mut payload: Vec<u8> = Vec::new();
    for i in items {
        payload.extend_from_slice(i);
    }
    let list = rlp::enc_list(&payload);
    let mut buf = list.clone();
    buf.extend_from_slice(suffix);
    let alone: Vec<DecOut> = items.iter().map(|i| decode_as(dec, i, false)).collect();
    flush_panics(cx, "decode of single frames");
    if alone.iter().any(|a| a.panicked) {
        return;
    }
    let all_complete = items.iter().all(|it| rlp::parse_item(it).map(|p| p.total_len == it.len()).unwrap_or(false));
    if !all_complete {
        return;
    }
    cx.stat("c13:lists");
    let r = list_as(dec, &buf);
    flush_panics(cx, &format!("Vec<Enr>::decode[{d}] of {}", hex(&buf)));
    let Some((res, consumed)) = r else { return };
    let all_ok = alone.iter().all(|a| a.view.is_some());
    cx.trans(format!("{d}/list/{}/{}/{}", items.len(), if all_ok { "all-valid" } else { "some-invalid" }, if res.is_some() { "ok" } else { "err" }));
    match (all_ok, res) {
        (true, None) => cx.push(viol("C13", format!("C13/list-of-valid-records-rejected/{d}"),
            format!("{} records, list of {} bytes: {}", items.len(), list.len(), hex(&buf)))),
        (false, Some(_)) => cx.push(viol("C13", format!("C13/list-with-invalid-record-accepted/{d}"), hex(&buf))),
        (true, Some((vs, re))) => {
            if re != list {
                cx.push(viol("C04", format!("C04/list-reencode-differs/{d}"),
                    format!("Vec<Enr> decoded from {} re-encodes to {}", hex(&list), hex(&re))));
            }
            if vs.len() != items.len() {
                cx.push(viol("C13", format!("C13/list-length/{d}"), format!("{} records in, {} out", items.len(), vs.len())));
            } else {
                for (a, b) in alone.iter().zip(vs.iter()) {
                    if let Some(f) = same_fields(a.view.as_ref().unwrap(), b) {
                        cx.push(viol("C13", format!("C13/list-record-differs/{d}/{f}"), hex(&buf)));
                    }
                }
            }
            if consumed != list.len() {
                cx.push(viol("C13", format!("C13/list-consumed/{d}"), format!("advanced by {consumed} instead of {}", list.len())));
            }
        }
        (false, None) => {}
    }
}

/// Is this input acceptable to `scheme` by the reference decoder (used for the no-false-reject tail)?
pub fn ref_accepts(data: &[u8], scheme: Scheme, lib: rc::Lib) -> bool {
    matches!(refrec::parse(data, scheme, lib), Verdict::Accept(f) if f.total_len == data.len())
}
