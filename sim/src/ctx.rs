//! Per-run context: violations, counters, abstract transitions, the ledger (R6).

use crate::battery::Violation;
use std::collections::{BTreeMap, BTreeSet};

#[derive(Clone, Debug, Default)]
pub struct Cx {
    pub viols: Vec<Violation>,
    pub stats: BTreeMap<String, u64>,
    /// distinct abstract transitions on which an oracle was evaluated
    pub transitions: BTreeSet<String>,
    /// R6: public-key bytes -> (signed payload, signature) pairs the key really produced
    pub ledger: BTreeMap<Vec<u8>, BTreeSet<(Vec<u8>, Vec<u8>)>>,
    /// keys held by honest parties (owners and foreign nodes)
    pub honest_keys: BTreeSet<Vec<u8>>,
    pub deep: bool,
    /// deep inspection (round trips) of records accepted by receivers too
    pub deep_recv: bool,
    pub step: u64,
    /// human-readable log of the run (hashed for the determinism self-check)
    pub log: Vec<String>,
    pub keep_log: bool,
    pub log_hash: u64,
}

impl Cx {
    pub fn new(deep: bool, keep_log: bool) -> Self {
        Self {
            deep,
            keep_log,
            log_hash: 0xcbf2_9ce4_8422_2325,
            ..Self::default()
        }
    }
    pub fn stat(&mut self, k: &str) {
        *self.stats.entry(k.to_string()).or_insert(0) += 1;
    }
    pub fn stat_n(&mut self, k: &str, n: u64) {
        *self.stats.entry(k.to_string()).or_insert(0) += n;
    }
    pub fn trans(&mut self, t: String) {
        self.transitions.insert(t);
    }
    pub fn push(&mut self, v: Violation) {
        self.log(&format!("VIOL {} {} {}", v.prop, v.check, v.detail));
        self.viols.push(v);
    }
    pub fn extend(&mut self, vs: Vec<Violation>) {
        for v in vs {
            self.push(v);
        }
    }
    pub fn log(&mut self, s: &str) {
        for b in s.bytes() {
            self.log_hash ^= u64::from(b);
            self.log_hash = self.log_hash.wrapping_mul(0x0000_0100_0000_01B3);
        }
        self.log_hash = self.log_hash.rotate_left(5) ^ 0x0a;
        if self.keep_log {
            self.log.push(format!("[{}] {}", self.step, s));
        }
    }
    pub fn ledger_add(&mut self, pk: &[u8], payload: Vec<u8>, sig: Vec<u8>) {
        self.ledger
            .entry(pk.to_vec())
            .or_default()
            .insert((payload, sig));
    }
    pub fn ledger_has(&self, pk: &[u8], payload: &[u8], sig: &[u8]) -> bool {
        self.ledger
            .get(pk)
            .is_some_and(|s| s.contains(&(payload.to_vec(), sig.to_vec())))
    }
}
