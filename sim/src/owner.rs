//! A node that owns a record and mutates it through the real `enr` API, checked step by step
//! against R4 and the record-local battery.

use crate::battery::{check_view, hex, viol, RecCtx};
use crate::ctx::Cx;
use crate::guard::{guard, take_panics};
use crate::keys::{Backend, BaseKey, Faulty, KeySpec};
use crate::ops::{
    apply_real, build_real, predict_build, BCall, ErrKind, IpArg, Model, Op, Outcome, PkSel, Ret,
    SignerInfo,
};
use crate::refrec::{self, PkKind};
use crate::refrlp as rlp;
use crate::view::{fixed_hash, inspect, pairs_of, View};
use alloy_rlp::Decodable;
use enr::{Enr, EnrKey};

pub const F12_TAG: &str = "combined-ed25519-signer+valid-secp256k1-entry";

pub trait DynOwner {
    fn backend(&self) -> Backend;
    fn build(&mut self, calls: &[BCall], slot: u8, reuse: Option<u8>, cx: &mut Cx);
    fn op(&mut self, op: &Op, slot: u8, cx: &mut Cx);
    fn arm(&mut self, slot: u8, nth: u64);
    fn arm_absolute(&mut self, slot: u8, at: u64);
    fn sign_calls(&self, slot: u8) -> u64;
    fn faults_fired(&self) -> u64;
    fn set_var_len(&mut self, slot: u8, len: usize);
    fn has_record(&self) -> bool;
    fn ended(&self) -> bool;
    fn model(&self) -> Option<&Model>;
    fn encoded(&self) -> Option<Vec<u8>>;
    fn text(&self) -> Option<String>;
    fn json(&self) -> Option<String>;
    fn last_view(&self) -> Option<&View>;
    /// restart: adopt whatever the disk holds (through the real parser)
    fn reload(&mut self, form: u8, data: &[u8], expect: Option<&[u8]>, cx: &mut Cx);
    fn drain_ledger(&mut self, cx: &mut Cx);
    /// C15 over the pool collected so far
    fn pool_check(&mut self, cx: &mut Cx);
    fn clone_into_pool(&mut self, cx: &mut Cx);
}

pub struct Owner<K: BaseKey> {
    pub backend: Backend,
    pub keys: Vec<(KeySpec, Faulty<K>)>,
    pub rec: Option<Enr<Faulty<K>>>,
    pub model: Option<Model>,
    pub view: Option<View>,
    pub ended: bool,
    pub pool: Vec<(String, Enr<Faulty<K>>)>,
}

pub fn seq_class(s: u64) -> &'static str {
    match s {
        0 => "0",
        1..=0x7f => "1B",
        0x80..=0xff => "1B+",
        0x100..=0xffff => "2B",
        0x1_0000..=0xffff_ffff => "4B",
        u64::MAX => "max",
        _ => "8B",
    }
}

/// presence mask of the six address/port keys (C14 reports how many of the 64 were reached)
pub fn presence_mask(v: &View) -> u32 {
    let mut mask = 0u32;
    for (k, _) in &v.pairs {
        match k.as_slice() {
            b"ip" => mask |= 1,
            b"ip6" => mask |= 2,
            b"tcp" => mask |= 4,
            b"tcp6" => mask |= 8,
            b"udp" => mask |= 16,
            b"udp6" => mask |= 32,
            _ => {}
        }
    }
    mask
}

pub fn abstract_state(v: &View) -> String {
    let size = match v.encoded.len() {
        0..=200 => "S",
        201..=280 => "M",
        281..=300 => "L",
        _ => "X",
    };
    let mut mask = 0u32;
    let mut custom = 0;
    for (k, _) in &v.pairs {
        match k.as_slice() {
            b"ip" => mask |= 1,
            b"ip6" => mask |= 2,
            b"tcp" => mask |= 4,
            b"tcp6" => mask |= 8,
            b"udp" => mask |= 16,
            b"udp6" => mask |= 32,
            b"client" => mask |= 64,
            b"id" | b"secp256k1" | b"ed25519" => {}
            _ => custom += 1,
        }
    }
    let cc = match custom {
        0 => "0",
        1 => "1",
        2..=3 => "2-3",
        _ => "4+",
    };
    format!("{}/{}/{:02x}/{}", seq_class(v.seq), size, mask, cc)
}

impl<K: BaseKey> Owner<K> {
    pub fn new(backend: Backend, specs: &[KeySpec]) -> Option<Self> {
        let mut keys = Vec::new();
        for s in specs {
            keys.push((*s, Faulty::new(K::make(*s)?)));
        }
        Some(Self {
            backend,
            keys,
            rec: None,
            model: None,
            view: None,
            ended: false,
            pool: Vec::new(),
        })
    }

    fn slot(&self, slot: u8) -> usize {
        usize::from(slot) % self.keys.len()
    }

    fn signer_info(&self, i: usize) -> SignerInfo {
        let (spec, k) = &self.keys[i];
        let sig_len = match k.inner.var_state() {
            Some(st) => st
                .lock()
                .unwrap()
                .next_lens
                .front()
                .copied()
                .unwrap_or(crate::keys::VAR_DEFAULT_SIG_LEN)
                .clamp(crate::keys::VAR_MIN_SIG_LEN, 255),
            None => 64,
        };
        SignerInfo {
            pk_kind: spec.backend.pk_kind(),
            pk: spec.ref_pk(),
            sig_len,
            will_fail: k.next_call_fails(),
        }
    }

    fn rcx(&self, origin: &'static str, in_scope: bool) -> RecCtx {
        RecCtx {
            origin,
            dec: self.backend.dec(),
            in_scope,
        }
    }

    /// Known finding F12: an Ed25519-signed CombinedKey record that also holds a valid secp256k1
    /// entry cannot verify (CombinedKey stands on the secp256k1 entry). Violations that arise in a
    /// step where this holds are tagged, so the finding is identified by its trigger and nothing else.
    fn f12_trigger(&self, signer_kind: PkKind, v: &View) -> bool {
        matches!(self.backend, Backend::CombSecp | Backend::CombEd)
            && signer_kind == PkKind::Ed
            && v.pairs.iter().any(|(k, r)| {
                k == b"secp256k1"
                    && matches!(rlp::parse_item(r), Ok(it) if !it.list && it.total_len == r.len()
                        && crate::refcrypto::secp_pk_valid33(it.payload, crate::refcrypto::Lib::Libsecp))
            })
    }

    fn tag_known(cx: &mut Cx, from: usize, tag: &str) {
        cx.stat(&format!("known-trigger:{tag}"));
        for v in &mut cx.viols[from..] {
            if matches!(v.prop.as_str(), "C01" | "C04" | "C05" | "C10" | "C12" | "C15") {
                v.check = format!("{}/known-trigger:{tag}", v.check);
            }
        }
    }

    fn flush_panics(cx: &mut Cx, what: &str) {
        for p in take_panics() {
            let site = p.split(" panicked").next().unwrap_or("?").to_string();
            cx.push(viol("C03", format!("C03/panic/{site}"), format!("{what}: {p}")));
        }
    }

    /// Adopt the record's real state into the model (after reporting), so that one defect gives
    /// one violation instead of a cascade.
    fn resync(&mut self, signer_kind: PkKind, signer_pk: Vec<u8>) {
        if let Some(v) = &self.view {
            self.model = Some(Model {
                seq: v.seq,
                pairs: v.pairs.iter().cloned().collect(),
                pk_kind: signer_kind,
                pk: signer_pk,
            });
        }
    }

    /// C07 "encoding and decoding preserve the number": if the record does not decode again but the
    /// same content re-signed at sequence number 1 does, the sequence number is what the decoder
    /// refuses.
    fn seq_causal_probe(&self, v: &View, signer: usize, cx: &mut Cx) {
        if !v.deep || !matches!(v.rt_bytes, Some(None)) || v.seq == 1 {
            return;
        }
        let Some(rec) = self.rec.as_ref() else { return };
        let key = &self.keys[signer].1;
        let calls_before = key.calls();
        let seq = v.seq;
        let ok = guard("set_seq (probe)", || {
            // control: re-signed at the SAME sequence number it must still be refused (otherwise
            // set_seq repaired something else) ...
            let mut same = rec.clone();
            if same.set_seq(seq, key).is_err() {
                return false;
            }
            let e = alloy_rlp::encode(&same);
            if Enr::<Faulty<K>>::decode(&mut e.as_slice()).is_ok() {
                return false;
            }
            // ... while at sequence number 1 the same content is accepted
            let mut c = rec.clone();
            if c.set_seq(1, key).is_err() {
                return false;
            }
            let e = alloy_rlp::encode(&c);
            Enr::<Faulty<K>>::decode(&mut e.as_slice()).is_ok()
        });
        // the probe's signing call must not shift later fault positions
        let _ = calls_before;
        let _ = key.drain_ledger();
        if ok == Some(true) {
            cx.push(viol("C07", "C07/decoder-rejects-sequence-number",
                format!("record with seq {} is rejected by the decoder, the same content at seq 1 is accepted: {}", v.seq, hex(&v.encoded))));
        }
    }

    fn builder_readback(calls: &[BCall], v: &View, cx: &mut Cx) {
        let key_of = |c: &BCall| -> Option<Vec<u8>> {
            Some(match c {
                BCall::Seq(_) => return None,
                BCall::AddValue { key, .. } | BCall::AddValueRlp { key, .. } => key.clone(),
                BCall::Ip(ip) => if ip.is_v4() { b"ip".to_vec() } else { b"ip6".to_vec() },
                BCall::Ip4(_) => b"ip".to_vec(),
                BCall::Ip6(_) => b"ip6".to_vec(),
                BCall::Tcp4(_) => b"tcp".to_vec(),
                BCall::Tcp6(_) => b"tcp6".to_vec(),
                BCall::Udp4(_) => b"udp".to_vec(),
                BCall::Udp6(_) => b"udp6".to_vec(),
                BCall::ClientInfo { .. } => b"client".to_vec(),
            })
        };
        let mut seen: std::collections::BTreeSet<Vec<u8>> = std::collections::BTreeSet::new();
        for c in calls.iter().rev() {
            let Some(k) = key_of(c) else { continue };
            if !seen.insert(k) {
                continue; // an earlier writer of a key written again later
            }
            let mut bad = |name: &str, d: String| {
                cx.push(viol("C14", format!("C14/builder-readback/{name}"), d));
            };
            match c {
                BCall::Tcp4(p) if v.tcp4 != Some(Some(*p)) => bad("tcp4", format!("built with tcp4({p}), tcp4() = {:?}", v.tcp4)),
                BCall::Tcp6(p) if v.tcp6 != Some(Some(*p)) => bad("tcp6", format!("built with tcp6({p}), tcp6() = {:?}", v.tcp6)),
                BCall::Udp4(p) if v.udp4 != Some(Some(*p)) => bad("udp4", format!("built with udp4({p}), udp4() = {:?}", v.udp4)),
                BCall::Udp6(p) if v.udp6 != Some(Some(*p)) => bad("udp6", format!("built with udp6({p}), udp6() = {:?}", v.udp6)),
                BCall::Ip(IpArg::V4(a)) | BCall::Ip4(a) if v.ip4 != Some(Some(*a)) => bad("ip4", format!("built with {a:?}, ip4() = {:?}", v.ip4)),
                BCall::Ip(IpArg::V6(a)) | BCall::Ip6(a) if v.ip6 != Some(Some(*a)) => bad("ip6", format!("built with {a:?}, ip6() = {:?}", v.ip6)),
                BCall::ClientInfo { name, version, build } => {
                    if v.client_info != Some(Some((name.clone(), version.clone(), build.clone()))) {
                        bad("client_info", format!("client_info() = {:?}", v.client_info));
                    }
                }
                _ => {}
            }
        }
    }

    fn readback(op: &Op, v: &View, cx: &mut Cx) {
        let mut bad = |name: &str, d: String| {
            cx.push(viol("C14", format!("C14/setter-readback/{name}"), d));
        };
        match op {
            Op::SetTcp4(p) if v.tcp4 != Some(Some(*p)) => bad("set_tcp4", format!("set {p}, tcp4() = {:?}", v.tcp4)),
            Op::SetTcp6(p) if v.tcp6 != Some(Some(*p)) => bad("set_tcp6", format!("set {p}, tcp6() = {:?}", v.tcp6)),
            Op::SetUdp4(p) if v.udp4 != Some(Some(*p)) => bad("set_udp4", format!("set {p}, udp4() = {:?}", v.udp4)),
            Op::SetUdp6(p) if v.udp6 != Some(Some(*p)) => bad("set_udp6", format!("set {p}, udp6() = {:?}", v.udp6)),
            Op::SetIp(IpArg::V4(a)) if v.ip4 != Some(Some(*a)) => bad("set_ip", format!("set {a:?}, ip4() = {:?}", v.ip4)),
            Op::SetIp(IpArg::V6(a)) if v.ip6 != Some(Some(*a)) => bad("set_ip", format!("set {a:?}, ip6() = {:?}", v.ip6)),
            Op::SetUdpSocket(IpArg::V4(a), p) if v.udp4_socket != Some(Some((*a, *p))) => {
                bad("set_udp_socket", format!("udp4_socket() = {:?}", v.udp4_socket));
            }
            Op::SetTcpSocket(IpArg::V4(a), p) if v.tcp4_socket != Some(Some((*a, *p))) => {
                bad("set_tcp_socket", format!("tcp4_socket() = {:?}", v.tcp4_socket));
            }
            Op::SetUdpSocket(IpArg::V6(a), p) if v.udp6_socket != Some(Some((*a, *p, 0, 0))) => {
                bad("set_udp_socket", format!("udp6_socket() = {:?}", v.udp6_socket));
            }
            Op::SetTcpSocket(IpArg::V6(a), p) if v.tcp6_socket != Some(Some((*a, *p, 0, 0))) => {
                bad("set_tcp_socket", format!("tcp6_socket() = {:?}", v.tcp6_socket));
            }
            Op::SetClientInfo { name, version, build } => {
                let exp = Some(Some((name.clone(), version.clone(), build.clone())));
                if v.client_info != exp {
                    bad("set_client_info", format!("client_info() = {:?}", v.client_info));
                }
            }
            _ => {}
        }
    }
}

fn causes_str(c: &std::collections::BTreeSet<ErrKind>) -> String {
    c.iter().map(|k| k.name()).collect::<Vec<_>>().join("+")
}

impl<K: BaseKey> DynOwner for Owner<K> {
    fn backend(&self) -> Backend {
        self.backend
    }
    fn has_record(&self) -> bool {
        self.rec.is_some()
    }
    fn ended(&self) -> bool {
        self.ended
    }
    fn model(&self) -> Option<&Model> {
        self.model.as_ref()
    }
    fn last_view(&self) -> Option<&View> {
        self.view.as_ref()
    }
    fn arm(&mut self, slot: u8, nth: u64) {
        let i = self.slot(slot);
        self.keys[i].1.arm(nth);
    }
    fn arm_absolute(&mut self, slot: u8, at: u64) {
        let i = self.slot(slot);
        self.keys[i].1.arm_absolute(at);
    }
    fn sign_calls(&self, slot: u8) -> u64 {
        self.keys[self.slot(slot)].1.calls()
    }
    fn faults_fired(&self) -> u64 {
        self.keys.iter().map(|(_, k)| k.fired()).sum()
    }
    fn set_var_len(&mut self, slot: u8, len: usize) {
        let i = self.slot(slot);
        if let Some(st) = self.keys[i].1.inner.var_state() {
            st.lock().unwrap().next_lens.push_back(len);
        }
    }
    fn encoded(&self) -> Option<Vec<u8>> {
        let r = self.rec.as_ref()?;
        guard("encode", || alloy_rlp::encode(r))
    }
    fn text(&self) -> Option<String> {
        let r = self.rec.as_ref()?;
        guard("to_base64", || r.to_base64())
    }
    fn json(&self) -> Option<String> {
        let r = self.rec.as_ref()?;
        guard("serde_json::to_string", || serde_json::to_string(r).ok()).flatten()
    }

    fn drain_ledger(&mut self, cx: &mut Cx) {
        for (spec, k) in &self.keys {
            let pk = spec.ref_pk();
            cx.honest_keys.insert(pk.clone());
            for (m, s) in k.drain_ledger() {
                cx.ledger_add(&pk, m, s);
            }
        }
    }

    fn build(&mut self, calls: &[BCall], slot: u8, reuse: Option<u8>, cx: &mut Cx) {
        let i = self.slot(slot);
        // builder reuse only with another key of the same scheme (a stale key entry of another
        // scheme is a different question)
        let first = reuse
            .map(|r| self.slot(r))
            .filter(|r| *r != i && self.keys[*r].0.backend.pk_kind() == self.keys[i].0.backend.pk_kind());
        if let Some(r) = first {
            // the discarded first build consumes a signing call of that key
            let _ = r;
            cx.stat("builder-reused");
        }
        let info = self.signer_info(i);
        let mut pred = predict_build(calls, &info);
        if first.is_some() && !pred.causes.is_empty() {
            // the first build already failed the same way; nothing more to learn
            pred.judged = false;
            pred.why_unjudged = "builder reused after a first build that fails the same way";
        }
        let real = build_real::<Faulty<K>>(calls, &self.keys[i].1, first.map(|r| &self.keys[r].1));
        Self::flush_panics(cx, "Builder");
        let b = self.backend.name();
        cx.log(&format!("build node={b} calls={} -> {}", calls.len(), match &real {
            Ok(Ok(_)) => "ok".to_string(),
            Ok(Err(k)) => k.name().to_string(),
            Err(()) => "panic".to_string(),
        }));
        let fixed = self.backend.sig_len_fixed().is_some();
        match real {
            Err(()) => {}
            Ok(Err(kind)) => {
                cx.trans(format!("{b}/build/{}/{}", calls.len().min(6), kind.name()));
                if pred.judged && !pred.judged_ok_only {
                    if pred.causes.is_empty() {
                        if kind == ErrKind::ExceedsMaxSize {
                            if !(pred.slack_zone) && fixed {
                                cx.push(viol("C09", "C09/builder-refused-though-fits",
                                    format!("builder refused a {}-byte result", pred.size)));
                            }
                        } else {
                            cx.push(viol("C08", format!("C08/unexpected-error/build/{}", kind.name()),
                                format!("builder failed with {} on conforming input {calls:?}", kind.name())));
                        }
                    } else if !pred.causes.contains(&kind) && !(kind == ErrKind::ExceedsMaxSize && pred.slack_zone) {
                        cx.push(viol("C08", format!("C08/error-kind/build/got={}/causes={}", kind.name(), causes_str(&pred.causes)),
                            format!("{calls:?}")));
                    }
                } else {
                    cx.stat(&format!("unjudged:build:{}", pred.why_unjudged));
                }
            }
            Ok(Ok(rec)) => {
                let v = inspect(&rec, cx.deep);
                Self::flush_panics(cx, "accessors after build");
                cx.trans(format!("{b}/build/{}/ok/{}", calls.len().min(6), abstract_state(&v)));
                cx.stat(&format!("c14:presence-mask:{:02x}", presence_mask(&v)));
                let vstart = cx.viols.len();
                let mut out = Vec::new();
                check_view(&v, &self.rcx("built", true), &mut out);
                cx.extend(out);
                if self.f12_trigger(info.pk_kind, &v) {
                    Self::tag_known(cx, vstart, F12_TAG);
                }
                if pred.judged {
                    if pred.causes.contains(&ErrKind::ExceedsMaxSize) && fixed {
                        cx.push(viol("C09", "C09/accepted-over-limit/build", format!("predicted {} bytes", pred.size)));
                    }
                    if pred.causes.is_empty() {
                        if v.pairs != pred.next.pairs_vec() {
                            cx.push(viol("C08", "C08/pairs/build", format!("calls {calls:?}: pairs {:?} expected {:?}",
                                v.pairs.iter().map(|(k, r)| (hex(k), hex(r))).collect::<Vec<_>>(),
                                pred.next.pairs_vec().iter().map(|(k, r)| (hex(k), hex(r))).collect::<Vec<_>>())));
                        }
                        if v.seq != pred.next.seq {
                            cx.push(viol("C07", "C07/seq-after-build", format!("seq {} expected {}", v.seq, pred.next.seq)));
                        }
                    }
                } else {
                    cx.stat(&format!("unjudged:build:{}", pred.why_unjudged));
                }
                // C14: what the typed builder methods stored reads back as the value set (the last
                // writer of each key counts)
                Self::builder_readback(calls, &v, cx);
                // a record that came out broken (a violation, or the known F12 trigger) ends the
                // node's history here: one defect, one report
                let broke = cx.viols[vstart..].iter().any(|x| x.prop == "C05");
                self.rec = Some(rec);
                self.view = Some(v);
                self.ended = broke;
                self.resync(info.pk_kind, info.pk.clone());
                if !broke {
                    self.clone_into_pool(cx);
                }
            }
        }
        self.drain_ledger(cx);
    }

    #[allow(clippy::too_many_lines)]
    fn op(&mut self, op: &Op, slot: u8, cx: &mut Cx) {
        if self.ended || self.rec.is_none() || self.model.is_none() {
            cx.stat("op-skipped");
            return;
        }
        let i = self.slot(slot);
        let info = self.signer_info(i);
        let model = self.model.clone().unwrap();
        let sel_bytes = match op {
            Op::SetPublicKey(PkSel::Signer) => Some((info.pk_kind, info.pk.clone())),
            Op::SetPublicKey(PkSel::Slot(s)) => {
                let spec = self.keys[self.slot(*s)].0;
                Some((spec.backend.pk_kind(), spec.ref_pk()))
            }
            _ => None,
        };
        let pred = model.predict(op, &info, sel_bytes);
        let before = match self.view.clone() {
            Some(v) => v,
            None => inspect(self.rec.as_ref().unwrap(), false),
        };
        let pre_abs = abstract_state(&before);
        let outcome = {
            let keys = &self.keys;
            let signer = &keys[i].1;
            let pk_for = |sel: PkSel| -> <Faulty<K> as EnrKey>::PublicKey {
                match sel {
                    PkSel::Signer => signer.public(),
                    PkSel::Slot(s) => keys[usize::from(s) % keys.len()].1.public(),
                }
            };
            let rec = self.rec.as_mut().unwrap();
            apply_real(rec, op, signer, &pk_for)
        };
        Self::flush_panics(cx, op.name());
        let after = inspect(self.rec.as_ref().unwrap(), cx.deep);
        Self::flush_panics(cx, "accessors after update");
        let b = self.backend.name();
        let opn = op.name();
        let same_scheme = info.pk_kind == model.pk_kind;
        let same_key = same_scheme && info.pk == model.pk;
        cx.log(&format!("op node={b} {opn} slot={i} -> {} sig={}", outcome.tag(), hex(&after.sig)));
        cx.trans(format!("{b}/{opn}/{pre_abs}/{}/{}", if same_key { "own" } else if same_scheme { "rekey" } else { "xscheme" }, outcome.tag()));
        let fixed = self.backend.sig_len_fixed().is_some();
        if info.will_fail {
            cx.stat("fault:signer-armed-at-call");
        }
        cx.stat(&format!("c14:presence-mask:{:02x}", presence_mask(&after)));

        match &outcome {
            Outcome::Panic => {
                // C03 already recorded; the record may be in any state
                self.view = Some(after);
                self.ended = true;
            }
            Outcome::Err(kind) => {
                if *kind == ErrKind::SigningError {
                    cx.stat("fault:signer-failure-observed");
                }
                // C06: observably identical
                let fields: [(&str, bool); 6] = [
                    ("encoding", before.encoded == after.encoded),
                    ("seq", before.seq == after.seq),
                    ("node_id", before.node_id == after.node_id),
                    ("signature", before.sig == after.sig),
                    ("pairs", before.pairs == after.pairs),
                    ("verify", before.verify == after.verify),
                ];
                cx.stat("c06:failed-update-compared");
                let mut changed = false;
                for (f, same) in fields {
                    if !same {
                        changed = true;
                        cx.push(viol("C06", format!("C06/atomicity/{opn}/cause={}/field={f}", kind.name()),
                            format!("{opn} returned {} but {f} changed: before {} after {}", kind.name(), hex(&before.encoded), hex(&after.encoded))));
                    }
                }
                if pred.judged && !pred.judged_ok_only && same_scheme {
                    if pred.causes.is_empty() {
                        match kind {
                            ErrKind::ExceedsMaxSize => {
                                if fixed {
                                    cx.push(viol("C09", format!("C09/refused-though-fits/{opn}"),
                                        format!("{opn} refused for size; result would be {} bytes (record {} bytes, seq {})", pred.size, before.encoded.len(), before.seq)));
                                }
                            }
                            ErrKind::SequenceNumberTooHigh => {
                                cx.push(viol("C07", format!("C07/spurious-seq-error/{opn}"), format!("seq was {}", before.seq)));
                            }
                            _ => cx.push(viol("C08", format!("C08/unexpected-error/{opn}/{}", kind.name()),
                                format!("{op:?} failed with {} although the model sees no cause", kind.name()))),
                        }
                    } else if !pred.causes.contains(kind) {
                        if !(fixed || *kind != ErrKind::ExceedsMaxSize) {
                            // variable-length signatures: size refusals are not predicted exactly
                        } else {
                            cx.push(viol("C08", format!("C08/error-kind/{opn}/got={}/causes={}", kind.name(), causes_str(&pred.causes)),
                                format!("{op:?}")));
                        }
                        if pred.causes.len() == 1 && pred.causes.contains(&ErrKind::SequenceNumberTooHigh) && (fixed || *kind != ErrKind::ExceedsMaxSize) {
                            cx.push(viol("C07", format!("C07/wrong-error-at-max/{opn}"), format!("got {}", kind.name())));
                        }
                    }
                } else {
                    cx.stat(&format!("unjudged:{}", pred.why_unjudged));
                }
                // whatever was true of the record before a failed call is still true of it
                let mut out = Vec::new();
                check_view(&after, &self.rcx("after-failed-update", true), &mut out);
                cx.extend(out);
                self.view = Some(after);
                // the (unchanged) record joins the pool: a record that silently lost a pair still
                // `==` its earlier clone, which C15 must notice
                self.clone_into_pool(cx);
                if changed {
                    self.ended = true;
                }
            }
            Outcome::Ok(ret) => {
                let vstart = cx.viols.len();
                let f12 = self.f12_trigger(info.pk_kind, &after);
                let mut out = Vec::new();
                check_view(&after, &self.rcx("updated", same_scheme), &mut out);
                let broke = out.iter().any(|v| v.prop == "C05");
                cx.extend(out);
                // C07 holds for every successful update, whatever key signs it
                if before.seq == u64::MAX && !matches!(op, Op::SetSeq(_)) {
                    cx.push(viol("C07", format!("C07/update-at-max-accepted/{opn}"), format!("seq after = {}", after.seq)));
                } else if after.seq != pred.next.seq {
                    cx.push(viol("C07", format!("C07/seq-after/{opn}"),
                        format!("seq {} -> {}, expected {}", before.seq, after.seq, pred.next.seq)));
                }
                if same_scheme {
                    self.seq_causal_probe(&after, i, cx);
                    // C10 / C05: identity follows the signer
                    if same_key && after.node_id != before.node_id {
                        cx.push(viol("C10", format!("C10/changed-under-same-key/{opn}"), String::new()));
                    }
                    let entry = info.pk_kind.entry_key();
                    let exp_raw = rlp::enc_str(&info.pk);
                    let got = after.pairs.iter().find(|(k, _)| k.as_slice() == entry).map(|(_, r)| r.clone());
                    if got.as_deref() != Some(exp_raw.as_slice()) {
                        cx.push(viol("C05", format!("C05/rekey-key-entry/{opn}"),
                            format!("after {opn} with key {} the key entry is {:?}", hex(&info.pk), got.map(|g| hex(&g)))));
                    }
                    if let Some(p) = &after.pk_enc {
                        if *p != info.pk {
                            cx.push(viol("C05", format!("C05/rekey-public_key()/{opn}"), String::new()));
                        }
                    }
                    if let Some(exp) = refrec::node_id_of(info.pk_kind, &info.pk, self.backend.judge_lib()) {
                        if after.node_id != exp {
                            cx.push(viol("C05", format!("C05/rekey-node-id/{opn}"),
                                format!("node id {} is not that of the signing key {}", hex(&after.node_id), hex(&exp))));
                        }
                    }
                    Self::readback(op, &after, cx);
                    if pred.judged {
                        if pred.causes.contains(&ErrKind::ExceedsMaxSize) && fixed && after.encoded.len() <= refrec::MAX {
                            // accepted, fits, but the model predicted more: the pairs differ (C08 below)
                        }
                        if pred.causes.is_empty() {
                            if after.pairs != pred.next.pairs_vec() {
                                cx.push(viol("C08", format!("C08/pairs/{opn}"), format!("{op:?}: pairs {:?} expected {:?}",
                                    after.pairs.iter().map(|(k, r)| (hex(k), hex(r))).collect::<Vec<_>>(),
                                    pred.next.pairs_vec().iter().map(|(k, r)| (hex(k), hex(r))).collect::<Vec<_>>())));
                            }
                            if *ret != pred.ret {
                                cx.push(viol("C08", format!("C08/return/{opn}"),
                                    format!("{op:?} returned {ret:?}, model says {:?}", pred.ret)));
                            }
                        } else {
                            cx.stat("accepted-despite-cause");
                            cx.log(&format!("accepted despite {}", causes_str(&pred.causes)));
                        }
                    } else {
                        cx.stat(&format!("unjudged:{}", pred.why_unjudged));
                    }
                } else {
                    cx.stat("excluded:cross-scheme-update");
                }
                if f12 {
                    Self::tag_known(cx, vstart, F12_TAG);
                }
                self.view = Some(after);
                self.resync(info.pk_kind, info.pk.clone());
                if !same_scheme || broke {
                    self.ended = true;
                } else {
                    self.clone_into_pool(cx);
                }
            }
        }
        // a fired fault disarms itself; a fault armed for a later call stays
        self.drain_ledger(cx);
        let _ = Ret::Unit;
    }

    fn reload(&mut self, form: u8, data: &[u8], expect: Option<&[u8]>, cx: &mut Cx) {
        let r: Option<Option<Enr<Faulty<K>>>> = match form {
            0 => guard("decode (restart)", || {
                let mut b = data;
                Enr::<Faulty<K>>::decode(&mut b).ok()
            }),
            1 => guard("parse (restart)", || {
                std::str::from_utf8(data).ok().and_then(|s| s.parse::<Enr<Faulty<K>>>().ok())
            }),
            _ => guard("serde_json::from_str (restart)", || {
                std::str::from_utf8(data).ok().and_then(|s| serde_json::from_str::<Enr<Faulty<K>>>(s).ok())
            }),
        };
        Self::flush_panics(cx, "restart");
        match r {
            None | Some(None) => {
                cx.stat("restart:record-unreadable");
                cx.log("reload -> rejected");
                if let Some(exp) = expect {
                    // an intact image of the record this node persisted must load again
                    cx.push(viol("C04", "C04/persisted-record-rejected-at-restart", hex(exp)));
                }
                // the node keeps running without a record
                self.rec = None;
                self.view = None;
                self.model = None;
            }
            Some(Some(rec)) => {
                let v = inspect(&rec, cx.deep);
                Self::flush_panics(cx, "accessors after restart");
                cx.log(&format!("reload -> ok seq={}", v.seq));
                if let Some(exp) = expect {
                    if v.encoded != exp {
                        cx.push(viol("C04", "C04/restart-record-differs", format!("persisted {} loaded {}", hex(exp), hex(&v.encoded))));
                    }
                }
                let mut out = Vec::new();
                check_view(&v, &self.rcx("reloaded", true), &mut out);
                cx.extend(out);
                // only adopt a record of one of this node's own keys
                let mine = self.keys.iter().find(|(s, _)| Some(s.ref_pk()) == v.pk_enc).map(|(s, _)| *s);
                match mine {
                    Some(s) => {
                        self.rec = Some(rec);
                        self.view = Some(v);
                        self.ended = false;
                        self.resync(s.backend.pk_kind(), s.ref_pk());
                        self.clone_into_pool(cx);
                    }
                    None => {
                        cx.stat("restart:foreign-record-ignored");
                        self.rec = None;
                        self.view = None;
                        self.model = None;
                    }
                }
            }
        }
    }

    fn clone_into_pool(&mut self, cx: &mut Cx) {
        if self.pool.len() >= 40 {
            return;
        }
        if let Some(r) = &self.rec {
            if let Some(c) = guard("Clone", || r.clone()) {
                self.pool.push((format!("step{}", cx.step), c));
            }
            // every few steps also keep the decode-after-encode image
            if cx.step % 3 == 0 && self.pool.len() < 40 {
                let img = guard("decode(encode)", || {
                    let e = alloy_rlp::encode(r);
                    Enr::<Faulty<K>>::decode(&mut e.as_slice()).ok()
                })
                .flatten();
                if let Some(d) = img {
                    self.pool.push((format!("step{}-decoded", cx.step), d));
                }
            }
        }
    }

    fn pool_check(&mut self, cx: &mut Cx) {
        let n = self.pool.len();
        if n < 2 {
            return;
        }
        struct P {
            seq: u64,
            node_id: [u8; 32],
            sig: Vec<u8>,
            pairs: crate::view::Pairs,
            enc: Vec<u8>,
            hash: u64,
        }
        let ps: Vec<P> = self
            .pool
            .iter()
            .map(|(_, r)| P {
                seq: r.seq(),
                node_id: r.node_id().raw(),
                sig: r.signature().to_vec(),
                pairs: pairs_of(r),
                enc: alloy_rlp::encode(r),
                hash: fixed_hash(r),
            })
            .collect();
        let mut eq = vec![vec![false; n]; n];
        for a in 0..n {
            for b in 0..n {
                eq[a][b] = guard("==", || self.pool[a].1 == self.pool[b].1).unwrap_or(false);
            }
        }
        Self::flush_panics(cx, "==");
        for a in 0..n {
            for b in (a + 1)..n {
                cx.stat("c15:pairs-compared");
                let (pa, pb) = (&ps[a], &ps[b]);
                let tag = format!("{} vs {}", self.pool[a].0, self.pool[b].0);
                if eq[a][b] != eq[b][a] {
                    cx.push(viol("C15", "C15/not-symmetric", tag.clone()));
                }
                if eq[a][b] {
                    cx.stat("c15:equal-pairs");
                    if pa.hash != pb.hash {
                        cx.push(viol("C15", "C15/equal-but-hash-differs", tag.clone()));
                    }
                    if pa.pairs != pb.pairs {
                        cx.push(viol("C15", "C15/equal-but-pairs-differ", tag.clone()));
                    }
                    if pa.enc != pb.enc {
                        cx.push(viol("C15", "C15/equal-but-encoding-differs", tag.clone()));
                    }
                }
                let differ = pa.seq != pb.seq || pa.node_id != pb.node_id || pa.sig != pb.sig;
                if differ && eq[a][b] {
                    cx.push(viol("C15", "C15/equal-despite-seq-key-or-signature", tag.clone()));
                }
                if !differ && pa.pairs == pb.pairs && !eq[a][b] {
                    cx.push(viol("C15", "C15/identical-records-unequal", tag.clone()));
                }
                let cc = guard("compare_content", || {
                    (
                        self.pool[a].1.compare_content(&self.pool[b].1),
                        self.pool[b].1.compare_content(&self.pool[a].1),
                    )
                });
                if let Some((ab, ba)) = cc {
                    let exp = pa.seq == pb.seq && pa.pairs == pb.pairs;
                    if exp && pa.sig != pb.sig {
                        cx.stat("c15:same-content-other-signature");
                    }
                    if ab != exp || ba != exp {
                        cx.push(viol("C15", if exp { "C15/compare_content-false-for-same-content" } else { "C15/compare_content-true-for-different-content" }, tag.clone()));
                    }
                }
            }
        }
        // transitivity on all triples of the (small) pool
        for a in 0..n {
            for b in 0..n {
                if !eq[a][b] {
                    continue;
                }
                for c in 0..n {
                    if eq[b][c] && !eq[a][c] {
                        cx.push(viol("C15", "C15/not-transitive", format!("{} {} {}", self.pool[a].0, self.pool[b].0, self.pool[c].0)));
                    }
                }
            }
        }
        Self::flush_panics(cx, "pool checks");
        self.pool.clear();
    }
}

/// Construct an owner for a back-end available in this build.
pub fn make_owner(backend: Backend, specs: &[KeySpec]) -> Option<Box<dyn DynOwner>> {
    match backend {
        Backend::K256 => Owner::<enr::k256::ecdsa::SigningKey>::new(backend, specs)
            .map(|o| Box::new(o) as Box<dyn DynOwner>),
        #[cfg(feature = "full")]
        Backend::Libsecp => Owner::<enr::secp256k1::SecretKey>::new(backend, specs)
            .map(|o| Box::new(o) as Box<dyn DynOwner>),
        #[cfg(any(feature = "full", feature = "combined"))]
        Backend::Ed => Owner::<enr::ed25519_dalek::SigningKey>::new(backend, specs)
            .map(|o| Box::new(o) as Box<dyn DynOwner>),
        #[cfg(any(feature = "full", feature = "combined"))]
        Backend::CombSecp | Backend::CombEd => {
            Owner::<enr::CombinedKey>::new(backend, specs).map(|o| Box::new(o) as Box<dyn DynOwner>)
        }
        Backend::Var => Owner::<crate::keys::VarKey>::new(backend, specs)
            .map(|o| Box::new(o) as Box<dyn DynOwner>),
        #[allow(unreachable_patterns)]
        _ => None,
    }
}
