//! One run = one seed: set-up, events, verdicts. Also trace execution (replay) and minimisation.

use crate::battery::Violation;
use crate::ctx::Cx;
use crate::gen::{self, Profile};
use crate::rng::Rng;
use crate::world::{Event, NodeSpec, World};
use serde::{Deserialize, Serialize};
use std::collections::{BTreeMap, BTreeSet};

#[derive(Clone, Debug, Serialize, Deserialize)]
pub struct Trace {
    pub version: u32,
    pub property: String,
    pub flavour: String,
    pub seed: u64,
    pub workload: String,
    pub nodes: Vec<NodeSpec>,
    pub events: Vec<Event>,
    pub violation: Option<Violation>,
    pub minimised: bool,
    #[serde(default)]
    pub note: String,
}

#[derive(Clone, Debug, Default)]
pub struct RunResult {
    pub viols: Vec<Violation>,
    pub stats: BTreeMap<String, u64>,
    pub transitions: BTreeSet<String>,
    pub log_hash: u64,
    pub steps: u64,
    pub log: Vec<String>,
    /// signing calls per node and key slot
    pub sign_calls: Vec<Vec<u64>>,
}

pub fn flavour() -> &'static str {
    if cfg!(feature = "full") {
        "full"
    } else if cfg!(feature = "combined") {
        "combined"
    } else {
        "default"
    }
}

fn deep_recv_for(prop: &str) -> bool {
    matches!(prop, "C04" | "C12" | "C05" | "C03")
}

/// Execute an explicit trace in a fresh world.
pub fn exec(nodes: &[NodeSpec], events: &[Event], seed: u64, prop: &str, keep_log: bool) -> Option<RunResult> {
    enr::verif_hooks::seed_signing_rng(Some(seed ^ 0x5167_4e0c_e5ee_d001));
    let _ = crate::guard::take_panics();
    let mut cx = Cx::new(true, keep_log);
    cx.deep_recv = deep_recv_for(prop);
    let mut w = World::new(nodes, cx)?;
    for ev in events {
        w.apply(ev);
    }
    let sign_calls = (0..w.nodes.len()).map(|i| (0..3u8).map(|sl| w.nodes[i].sign_calls(sl)).collect()).collect();
    let fired: u64 = (0..w.nodes.len()).map(|i| w.nodes[i].faults_fired()).sum();
    w.cx.stat_n("fault:signer-failure-fired", fired);
    enr::verif_hooks::seed_signing_rng(None);
    Some(RunResult {
        viols: w.cx.viols,
        stats: w.cx.stats,
        transitions: w.cx.transitions,
        log_hash: w.cx.log_hash,
        steps: w.cx.step,
        log: w.cx.log,
        sign_calls,
    })
}

/// Generate and execute the run for `seed`. Generation looks at the world as it evolves, so the
/// trace is produced while executing; the returned trace replays to the same result via `exec`.
pub fn run_seeded(prop: &str, seed: u64, thorough: bool, keep_log: bool) -> (Trace, RunResult) {
    enr::verif_hooks::seed_signing_rng(Some(seed ^ 0x5167_4e0c_e5ee_d001));
    let _ = crate::guard::take_panics();
    let mut rng = Rng::new(seed);
    let profile = Profile::for_prop(prop, &mut rng, thorough);
    let nodes = gen::gen_setup(&mut rng, &profile);
    let mut cx = Cx::new(true, keep_log);
    cx.deep_recv = deep_recv_for(prop);
    let mut w = World::new(&nodes, cx).expect("set-up uses available back-ends only");
    let len = rng.range(profile.len_lo as u64, profile.len_hi as u64) as usize;
    let mut events = Vec::with_capacity(len + 1);
    let mut gst = gen::GenState::default();
    for _ in 0..len {
        let ev = match gen::maybe_restart(&mut rng, &w) {
            Some(e) => e,
            None => gen::gen_event(&mut rng, &w, &profile, &mut gst),
        };
        w.apply(&ev);
        events.push(ev);
    }
    let tail = Event::Tail;
    w.apply(&tail);
    events.push(tail);
    let sign_calls = (0..w.nodes.len()).map(|i| (0..3u8).map(|sl| w.nodes[i].sign_calls(sl)).collect()).collect();
    let fired: u64 = (0..w.nodes.len()).map(|i| w.nodes[i].faults_fired()).sum();
    w.cx.stat_n("fault:signer-failure-fired", fired);
    enr::verif_hooks::seed_signing_rng(None);
    let trace = Trace {
        version: 1,
        property: prop.to_string(),
        flavour: flavour().to_string(),
        seed,
        workload: "seeded".into(),
        nodes,
        events,
        violation: None,
        minimised: false,
        note: String::new(),
    };
    let res = RunResult {
        viols: w.cx.viols,
        stats: w.cx.stats,
        transitions: w.cx.transitions,
        log_hash: w.cx.log_hash,
        steps: w.cx.step,
        log: w.cx.log,
        sign_calls,
    };
    (trace, res)
}

/// `exec` on a thread of its own, so that thread-local state inside the library cannot carry over
/// from one execution to the next (minimisation re-executes hundreds of candidates in one process).
pub fn exec_isolated(nodes: &[NodeSpec], events: &[Event], seed: u64, prop: &str, keep_log: bool) -> Option<RunResult> {
    std::thread::scope(|sc| {
        std::thread::Builder::new()
            .stack_size(16 << 20)
            .spawn_scoped(sc, || exec(nodes, events, seed, prop, keep_log))
            .ok()?
            .join()
            .ok()
            .flatten()
    })
}

pub fn has_fingerprint(r: &RunResult, prop: &str, check: &str) -> bool {
    r.viols.iter().any(|v| v.prop == prop && v.check == check)
}

/// ddmin over events, then per-event simplification; accepts a candidate only if the same
/// fingerprint recurs. Bounded by a re-execution budget.
pub fn minimise(t: &Trace, prop: &str, check: &str, budget: usize) -> (Trace, usize) {
    let mut events = t.events.clone();
    let mut nodes = t.nodes.clone();
    let mut used = 0usize;
    let test = |nodes: &[NodeSpec], evs: &[Event], used: &mut usize| -> bool {
        *used += 1;
        match exec_isolated(nodes, evs, t.seed, prop, false) {
            Some(r) => has_fingerprint(&r, prop, check),
            None => false,
        }
    };
    // ddmin
    let mut n = 2usize;
    while events.len() >= 2 && used < budget {
        let chunk = events.len().div_ceil(n);
        let mut reduced = false;
        let mut i = 0;
        while i < events.len() && used < budget {
            let end = (i + chunk).min(events.len());
            let mut cand = events[..i].to_vec();
            cand.extend_from_slice(&events[end..]);
            if !cand.is_empty() && test(&nodes, &cand, &mut used) {
                events = cand;
                n = n.saturating_sub(1).max(2);
                reduced = true;
                break;
            }
            i = end;
        }
        if !reduced {
            if chunk <= 1 {
                break;
            }
            n = (n * 2).min(events.len());
        }
    }
    // single-event removal sweep
    let mut i = 0;
    while i < events.len() && used < budget {
        let mut cand = events.clone();
        cand.remove(i);
        if !cand.is_empty() && test(&nodes, &cand, &mut used) {
            events = cand;
        } else {
            i += 1;
        }
    }
    // fewer nodes: drop trailing nodes that no event needs (indices are taken modulo the count,
    // so this may change meaning; only kept if the fingerprint survives)
    while nodes.len() > 1 && used < budget {
        let mut cand = nodes.clone();
        cand.pop();
        if test(&cand, &events, &mut used) {
            nodes = cand;
        } else {
            break;
        }
    }
    // simplify builder calls and remove_insert lists
    for i in 0..events.len() {
        if used >= budget {
            break;
        }
        if let Event::Build { node, slot, calls, reuse } = events[i].clone() {
            let mut calls = calls;
            let mut j = 0;
            while j < calls.len() && used < budget {
                let mut c2 = calls.clone();
                c2.remove(j);
                let mut cand = events.clone();
                cand[i] = Event::Build { node, slot, calls: c2.clone(), reuse };
                if test(&nodes, &cand, &mut used) {
                    calls = c2;
                    events = cand;
                } else {
                    j += 1;
                }
            }
        }
    }
    let mut out = t.clone();
    out.events = events;
    out.nodes = nodes;
    out.minimised = true;
    (out, used)
}
