//! Seam S1: signers. `Faulty<K>` wraps a real key (ledger + injected signing failures); `VarKey` is a
//! toy scheme with caller-controlled signature length; `KeySpec` names a key in a trace.

use crate::refcrypto::{self as rc, Lib};
use crate::refrec::PkKind;
use alloy_rlp::{Decodable, Error as DecoderError};
use bytes::Bytes;
use enr::verif_hooks::{signing_error, SigningError};
use enr::{EnrKey, EnrPublicKey};
use serde::{Deserialize, Serialize};
use std::collections::{BTreeMap, BTreeSet, VecDeque};
use std::sync::{Arc, Mutex};

pub const VAR_ENR_KEY: &[u8] = b"vs";
pub const VAR_PK_LEN: usize = 8;
pub const VAR_DEFAULT_SIG_LEN: usize = 40;

/// The key types of `enr` under test (plus the toy scheme).
#[derive(Clone, Copy, Debug, PartialEq, Eq, PartialOrd, Ord, Hash, Serialize, Deserialize)]
pub enum Backend {
    K256,
    Libsecp,
    Ed,
    CombSecp,
    CombEd,
    Var,
}

impl Backend {
    pub fn name(self) -> &'static str {
        match self {
            Backend::K256 => "k256",
            Backend::Libsecp => "rust-secp256k1",
            Backend::Ed => "ed25519",
            Backend::CombSecp => "combined(secp256k1)",
            Backend::CombEd => "combined(ed25519)",
            Backend::Var => "varsig",
        }
    }
    pub fn pk_kind(self) -> PkKind {
        match self {
            Backend::K256 | Backend::Libsecp | Backend::CombSecp => PkKind::Secp,
            Backend::Ed | Backend::CombEd => PkKind::Ed,
            Backend::Var => PkKind::Var,
        }
    }
    /// the decoder type a node of this back-end uses
    pub fn dec(self) -> DecType {
        match self {
            Backend::K256 => DecType::K256,
            Backend::Libsecp => DecType::Libsecp,
            Backend::Ed => DecType::Ed,
            Backend::CombSecp | Backend::CombEd => DecType::Combined,
            Backend::Var => DecType::Var,
        }
    }
    /// the library that judges this back-end (the *other* one)
    pub fn judge_lib(self) -> Lib {
        match self {
            Backend::Libsecp => Lib::K256,
            _ => Lib::Libsecp,
        }
    }
    pub fn sig_len_fixed(self) -> Option<usize> {
        match self {
            Backend::Var => None,
            _ => Some(64),
        }
    }
    pub fn available() -> Vec<Backend> {
        let mut v = vec![Backend::K256];
        #[cfg(feature = "full")]
        v.push(Backend::Libsecp);
        #[cfg(any(feature = "full", feature = "combined"))]
        {
            v.push(Backend::Ed);
            v.push(Backend::CombSecp);
            v.push(Backend::CombEd);
        }
        v.push(Backend::Var);
        v
    }
}

#[derive(Clone, Copy, Debug, PartialEq, Eq, PartialOrd, Ord, Hash, Serialize, Deserialize)]
pub enum DecType {
    K256,
    Libsecp,
    Ed,
    Combined,
    Var,
}

impl DecType {
    pub fn name(self) -> &'static str {
        match self {
            DecType::K256 => "k256",
            DecType::Libsecp => "rust-secp256k1",
            DecType::Ed => "ed25519",
            DecType::Combined => "combined",
            DecType::Var => "varsig",
        }
    }
    pub fn scheme(self) -> crate::refrec::Scheme {
        use crate::refrec::Scheme;
        match self {
            DecType::K256 | DecType::Libsecp => Scheme::Secp,
            DecType::Ed => Scheme::Ed,
            DecType::Combined => Scheme::Combined,
            DecType::Var => Scheme::Var,
        }
    }
    pub fn judge_lib(self) -> Lib {
        match self {
            DecType::Libsecp => Lib::K256,
            _ => Lib::Libsecp,
        }
    }
    pub fn available() -> Vec<DecType> {
        let mut v = vec![DecType::K256];
        #[cfg(feature = "full")]
        v.push(DecType::Libsecp);
        #[cfg(any(feature = "full", feature = "combined"))]
        {
            v.push(DecType::Ed);
            v.push(DecType::Combined);
        }
        v.push(DecType::Var);
        v
    }
}

/// A key as named in a trace: back-end + index into the key pool.
#[derive(Clone, Copy, Debug, PartialEq, Eq, PartialOrd, Ord, Serialize, Deserialize)]
pub struct KeySpec {
    pub backend: Backend,
    pub idx: u32,
}

/// Secret bytes for pool index `idx`: a few edge scalars, then pseudo-random ones.
pub fn pool_secret(idx: u32) -> [u8; 32] {
    let mut s = [0u8; 32];
    match idx {
        0 => s[31] = 1,
        1 => s[31] = 2,
        2 => {
            // n - 1
            s = rc::N;
            s[31] -= 1;
        }
        3 => {
            s = rc::N;
            s[31] -= 2;
        }
        4 => s[0] = 0x80,
        5 => {
            s[0] = 0x01;
            s[31] = 0x01;
        }
        6 => s = [0x7f; 32],
        7 => {
            // n/2 + 1
            s = rc::HALF_N;
            s[31] += 1;
        }
        _ => {
            let mut st = 0x5EED_0000_0000_0000u64 ^ u64::from(idx);
            for c in s.chunks_mut(8) {
                c.copy_from_slice(&crate::rng::splitmix64(&mut st).to_be_bytes());
            }
            s[0] &= 0x7f; // stay below n
            if s.iter().all(|b| *b == 0) {
                s[31] = 9;
            }
        }
    }
    s
}


impl KeySpec {
    pub fn secret(&self) -> [u8; 32] {
        pool_secret(self.idx)
    }
    /// public key bytes by the reference derivation (never through `enr`)
    pub fn ref_pk(&self) -> Vec<u8> {
        let sk = self.secret();
        match self.backend.pk_kind() {
            PkKind::Secp => rc::secp_pub_from_secret(&sk, self.backend.judge_lib())
                .expect("pool scalars are valid")
                .to_vec(),
            PkKind::Ed => rc::ed_pub_from_secret(&sk).to_vec(),
            PkKind::Var => var_pk_from_secret(&sk).to_vec(),
        }
    }
}

// ------------------------------------------------------------------------------------------------
// toy variable-length scheme

pub fn var_pk_from_secret(sk: &[u8; 32]) -> [u8; VAR_PK_LEN] {
    let h = rc::keccak256(sk);
    let mut out = [0u8; VAR_PK_LEN];
    out.copy_from_slice(&h[..VAR_PK_LEN]);
    out
}

pub const VAR_MIN_SIG_LEN: usize = 17;

/// A keccak stream over (pk, msg), cut at the length the signer chooses (17..=255 bytes). The
/// scheme is prefix-closed on purpose: a shorter signature of the same message is a prefix of a
/// longer one, so comparisons that stop at the shorter length are exposed. No security intended
/// (anybody can compute it, and truncations verify): the toy scheme is outside C01.
pub fn var_sign(pk: &[u8], msg: &[u8], len: usize) -> Vec<u8> {
    let len = len.clamp(VAR_MIN_SIG_LEN, 255);
    let mut out = Vec::with_capacity(len);
    let mut ctr = 0u8;
    while out.len() < len {
        let mut inp = pk.to_vec();
        inp.extend_from_slice(msg);
        inp.push(ctr);
        let h = rc::keccak256(&inp);
        let take = (len - out.len()).min(32);
        out.extend_from_slice(&h[..take]);
        ctr = ctr.wrapping_add(1);
    }
    out
}

pub fn var_verify(pk: &[u8], msg: &[u8], sig: &[u8]) -> bool {
    if sig.len() < VAR_MIN_SIG_LEN || sig.len() > 255 {
        return false;
    }
    var_sign(pk, msg, sig.len()) == sig
}

#[derive(Clone, Debug, PartialEq, Eq)]
pub struct VarPub(pub [u8; VAR_PK_LEN]);

impl EnrPublicKey for VarPub {
    type Raw = [u8; VAR_PK_LEN];
    type RawUncompressed = [u8; VAR_PK_LEN];
    fn verify_v4(&self, msg: &[u8], sig: &[u8]) -> bool {
        var_verify(&self.0, msg, sig)
    }
    fn encode(&self) -> Self::Raw {
        self.0
    }
    fn encode_uncompressed(&self) -> Self::RawUncompressed {
        self.0
    }
    fn enr_key(&self) -> Vec<u8> {
        VAR_ENR_KEY.to_vec()
    }
}

#[derive(Debug, Default)]
pub struct VarState {
    pub next_lens: VecDeque<usize>,
}

pub struct VarKey {
    pub pk: [u8; VAR_PK_LEN],
    pub st: Arc<Mutex<VarState>>,
}

impl EnrKey for VarKey {
    type PublicKey = VarPub;
    fn sign_v4(&self, msg: &[u8]) -> Result<Vec<u8>, SigningError> {
        let len = self
            .st
            .lock()
            .unwrap()
            .next_lens
            .pop_front()
            .unwrap_or(VAR_DEFAULT_SIG_LEN);
        Ok(var_sign(&self.pk, msg, len))
    }
    fn public(&self) -> Self::PublicKey {
        VarPub(self.pk)
    }
    fn enr_to_public(content: &BTreeMap<Vec<u8>, Bytes>) -> Result<Self::PublicKey, DecoderError> {
        let raw = content
            .get(VAR_ENR_KEY)
            .ok_or(DecoderError::Custom("Unknown signature"))?;
        let b = Bytes::decode(&mut raw.as_ref())?;
        if b.len() != VAR_PK_LEN {
            return Err(DecoderError::Custom("bad toy key"));
        }
        let mut pk = [0u8; VAR_PK_LEN];
        pk.copy_from_slice(&b);
        Ok(VarPub(pk))
    }
}

// ------------------------------------------------------------------------------------------------
// fault-injecting wrapper

#[derive(Debug, Default)]
pub struct FaultState {
    /// number of sign_v4 calls so far (1-based index of the last call)
    pub calls: u64,
    /// absolute call numbers that must fail
    pub fail_at: BTreeSet<u64>,
    pub fired: u64,
    /// every (message, signature) this key really produced
    pub ledger: Vec<(Vec<u8>, Vec<u8>)>,
}

pub struct Faulty<K: EnrKey> {
    pub inner: K,
    pub st: Arc<Mutex<FaultState>>,
}

impl<K: EnrKey> Faulty<K> {
    pub fn new(inner: K) -> Self {
        Self {
            inner,
            st: Arc::new(Mutex::new(FaultState::default())),
        }
    }
    /// the n-th next call (1 = the very next) fails
    pub fn arm(&self, nth: u64) {
        let mut s = self.st.lock().unwrap();
        let at = s.calls + nth.max(1);
        s.fail_at.insert(at);
    }
    pub fn arm_absolute(&self, at: u64) {
        self.st.lock().unwrap().fail_at.insert(at);
    }
    pub fn calls(&self) -> u64 {
        self.st.lock().unwrap().calls
    }
    pub fn fired(&self) -> u64 {
        self.st.lock().unwrap().fired
    }
    pub fn next_call_fails(&self) -> bool {
        let s = self.st.lock().unwrap();
        s.fail_at.contains(&(s.calls + 1))
    }
    pub fn drain_ledger(&self) -> Vec<(Vec<u8>, Vec<u8>)> {
        std::mem::take(&mut self.st.lock().unwrap().ledger)
    }
}

impl<K: EnrKey> EnrKey for Faulty<K> {
    type PublicKey = K::PublicKey;
    fn sign_v4(&self, msg: &[u8]) -> Result<Vec<u8>, SigningError> {
        {
            let mut s = self.st.lock().unwrap();
            s.calls += 1;
            let n = s.calls;
            if s.fail_at.remove(&n) {
                s.fired += 1;
                return Err(signing_error("injected signer outage"));
            }
        }
        let sig = self.inner.sign_v4(msg)?;
        self.st
            .lock()
            .unwrap()
            .ledger
            .push((msg.to_vec(), sig.clone()));
        Ok(sig)
    }
    fn public(&self) -> Self::PublicKey {
        self.inner.public()
    }
    fn enr_to_public(content: &BTreeMap<Vec<u8>, Bytes>) -> Result<Self::PublicKey, DecoderError> {
        K::enr_to_public(content)
    }
}

// ------------------------------------------------------------------------------------------------
// constructing real keys from a KeySpec

pub trait BaseKey: EnrKey + Sized {
    fn make(spec: KeySpec) -> Option<Self>;
    /// extra handle for the toy scheme
    fn var_state(&self) -> Option<Arc<Mutex<VarState>>> {
        None
    }
}

impl BaseKey for enr::k256::ecdsa::SigningKey {
    fn make(spec: KeySpec) -> Option<Self> {
        (spec.backend == Backend::K256)
            .then(|| enr::k256::ecdsa::SigningKey::from_slice(&spec.secret()).ok())
            .flatten()
    }
}

#[cfg(feature = "full")]
impl BaseKey for enr::secp256k1::SecretKey {
    #[allow(deprecated)]
    fn make(spec: KeySpec) -> Option<Self> {
        (spec.backend == Backend::Libsecp)
            .then(|| enr::secp256k1::SecretKey::from_slice(&spec.secret()).ok())
            .flatten()
    }
}

#[cfg(any(feature = "full", feature = "combined"))]
impl BaseKey for enr::ed25519_dalek::SigningKey {
    fn make(spec: KeySpec) -> Option<Self> {
        (spec.backend == Backend::Ed)
            .then(|| enr::ed25519_dalek::SigningKey::from_bytes(&spec.secret()))
    }
}

#[cfg(any(feature = "full", feature = "combined"))]
impl BaseKey for enr::CombinedKey {
    fn make(spec: KeySpec) -> Option<Self> {
        // the boot path of a node: import the secret through the library's own import functions
        let mut s = spec.secret();
        match spec.backend {
            Backend::CombSecp => enr::CombinedKey::secp256k1_from_bytes(&mut s).ok(),
            Backend::CombEd => enr::CombinedKey::ed25519_from_bytes(&mut s).ok(),
            _ => None,
        }
    }
}

impl BaseKey for VarKey {
    fn make(spec: KeySpec) -> Option<Self> {
        (spec.backend == Backend::Var).then(|| VarKey {
            pk: var_pk_from_secret(&spec.secret()),
            st: Arc::new(Mutex::new(VarState::default())),
        })
    }
    fn var_state(&self) -> Option<Arc<Mutex<VarState>>> {
        Some(self.st.clone())
    }
}
