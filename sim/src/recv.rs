//! Receiving side: the real decoders of every key type compiled into this flavour (seams S2, S3).

use crate::guard::guard;
use crate::keys::{DecType, VarKey};
use crate::view::{inspect, View};
use alloy_rlp::Decodable;
use enr::{Enr, EnrKey};

#[derive(Clone, Debug, Default)]
pub struct DecOut {
    /// Some(view) iff the library returned Ok
    pub view: Option<View>,
    /// bytes the decoder advanced the buffer by (Ok and Err alike)
    pub consumed: usize,
    pub panicked: bool,
    /// Debug form of the error value, if the library returned Err
    pub err: Option<String>,
}

fn decode_g<K: EnrKey>(buf: &[u8], deep: bool) -> DecOut {
    let r = guard("decode", || {
        let mut b = buf;
        let r = Enr::<K>::decode(&mut b);
        (r.map_err(|e| format!("{e:?}")), buf.len() - b.len())
    });
    match r {
        None => DecOut {
            panicked: true,
            ..DecOut::default()
        },
        Some((Err(e), consumed)) => DecOut {
            view: None,
            consumed,
            panicked: false,
            err: Some(e),
        },
        Some((Ok(e), consumed)) => DecOut {
            view: Some(inspect(&e, deep)),
            consumed,
            panicked: false,
            err: None,
        },
    }
}

fn parse_g<K: EnrKey>(s: &str, deep: bool) -> DecOut {
    match guard("from_str", || s.parse::<Enr<K>>().ok()) {
        None => DecOut {
            panicked: true,
            ..DecOut::default()
        },
        Some(None) => DecOut::default(),
        Some(Some(e)) => DecOut {
            view: Some(inspect(&e, deep)),
            consumed: s.len(),
            panicked: false,
            err: None,
        },
    }
}

fn json_g<K: EnrKey>(s: &str, deep: bool) -> DecOut {
    match guard("serde_json::from_str", || {
        serde_json::from_str::<Enr<K>>(s).ok()
    }) {
        None => DecOut {
            panicked: true,
            ..DecOut::default()
        },
        Some(None) => DecOut::default(),
        Some(Some(e)) => DecOut {
            view: Some(inspect(&e, deep)),
            consumed: s.len(),
            panicked: false,
            err: None,
        },
    }
}

/// `Vec<Enr<K>>::decode`: Some(Ok(views), consumed) / Some(Err) / None on panic
fn list_g<K: EnrKey>(buf: &[u8]) -> Option<(Option<(Vec<View>, Vec<u8>)>, usize)> {
    guard("Vec<Enr>::decode", || {
        let mut b = buf;
        let r = Vec::<Enr<K>>::decode(&mut b);
        (
            r.ok().map(|v| {
                // and back: the library's own encoding of the list it just read
                let re = alloy_rlp::encode(&v);
                (v.iter().map(|e| inspect(e, false)).collect(), re)
            }),
            buf.len() - b.len(),
        )
    })
}

macro_rules! dispatch {
    ($dec:expr, $f:ident, $($arg:expr),*) => {
        match $dec {
            DecType::K256 => $f::<enr::k256::ecdsa::SigningKey>($($arg),*),
            #[cfg(feature = "full")]
            DecType::Libsecp => $f::<enr::secp256k1::SecretKey>($($arg),*),
            #[cfg(any(feature = "full", feature = "combined"))]
            DecType::Ed => $f::<enr::ed25519_dalek::SigningKey>($($arg),*),
            #[cfg(any(feature = "full", feature = "combined"))]
            DecType::Combined => $f::<enr::CombinedKey>($($arg),*),
            DecType::Var => $f::<VarKey>($($arg),*),
            #[allow(unreachable_patterns)]
            _ => unreachable!("decoder type not compiled into this flavour"),
        }
    };
}

pub fn decode_as(dec: DecType, buf: &[u8], deep: bool) -> DecOut {
    dispatch!(dec, decode_g, buf, deep)
}

pub fn parse_as(dec: DecType, s: &str, deep: bool) -> DecOut {
    dispatch!(dec, parse_g, s, deep)
}

pub fn json_as(dec: DecType, s: &str, deep: bool) -> DecOut {
    dispatch!(dec, json_g, s, deep)
}

pub fn list_as(dec: DecType, buf: &[u8]) -> Option<(Option<(Vec<View>, Vec<u8>)>, usize)> {
    dispatch!(dec, list_g, buf)
}
